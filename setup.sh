#!/bin/sh
# Offline setup: nothing to build; verify the tools the checks need are present.
set -e
cd "$(dirname "$0")"
test -x /venv/bin/python
test -f /opt/veriftools/tla/tla2tools.jar
java -version >/dev/null 2>&1
mkdir -p .work evidence
PYTHONPATH=/repo:/verif /venv/bin/python -c "import mindsdb_sql, sly, sqlalchemy, sqlite3"
echo setup ok
