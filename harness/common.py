"""Shared infrastructure: context, TLC runner, evidence writer, known-findings classifier.

Every check is `./check <ID> [--tier quick|thorough]`; it builds a Ctx, runs TLC jobs on the
specifications in /verif/spec, drives the real library in /repo, and ends with ctx.finish().
Exit codes: 0 property held on everything explored (known findings are printed, not failed),
1 at least one violation that is not a listed known finding, 2 machinery failure.
"""
import hashlib
import json
import os
import re
import shutil
import subprocess
import sys
import time
from pathlib import Path

VERIF = Path(__file__).resolve().parent.parent
REPO = Path(os.environ.get('VERIF_REPO', '/repo'))
SPEC = VERIF / 'spec'
# developer overrides (tools/seed_eval.sh runs checks against scratch trees without touching the committed evidence)
WORK = Path(os.environ.get('VERIF_WORK') or (VERIF / '.work'))
EVID = Path(os.environ.get('VERIF_EVIDENCE') or (VERIF / 'evidence'))
PY = '/venv/bin/python'
FINDINGS_FILE = VERIF / 'known_findings.jsonl'
NCPU = min(16, os.cpu_count() or 4)


class MachineryError(Exception):
    pass


def load_findings(pid):
    out = []
    if FINDINGS_FILE.exists():
        for line in FINDINGS_FILE.read_text().splitlines():
            line = line.strip()
            if not line or line.startswith('#'):
                continue
            rec = json.loads(line)
            if rec.get('property') == pid and rec.get('status', 'open') == 'open':
                out.append(rec)
    return out


class TLCResult:
    def __init__(self, out, rc, wall):
        self.out = out
        self.rc = rc
        self.wall = wall
        m = None
        for m in re.finditer(r'(\d+) states generated, (\d+) distinct states found, (\d+) states left', out):
            pass
        self.generated = int(m.group(1)) if m else 0
        self.distinct = int(m.group(2)) if m else 0
        self.left = int(m.group(3)) if m else 0
        self.violated = re.findall(r'Invariant (\S+) is violated', out)
        self.violated += re.findall(r'The invariant of (\S+) is equal to FALSE', out)
        self.violated += ['<temporal>'] if 'Temporal properties were violated' in out else []
        self.violated += ['<action:%s>' % a for a in re.findall(r'Action property (\S+) is violated', out)]
        self.deadlock = 'Deadlock reached' in out
        self.ok = ('Model checking completed. No error has been found' in out) or \
                  ('The depth of the complete state graph search' in out and 'Error:' not in out)
        self.errors = re.findall(r'^Error: (.*)$', out, re.M)
        m = re.search(r'The depth of the complete state graph search is (\d+)', out)
        self.depth = int(m.group(1)) if m else None

    def prints(self, tag):
        """All PrintT'ed tuples of the form <<"tag", ...>> as python lists (ints/strings only)."""
        res = []
        if not hasattr(self, '_flat'):
            flat = re.sub(r'\s+', ' ', self.out)
            flat = flat.replace('<< ', '<<').replace(' >>', '>>').replace('{ ', '{').replace(' }', '}')
            self._flat = flat
        for m in re.finditer(r'<<"%s"((?:, (?:-?\d+|"[^"]*"|<<[^<>]*>>|\{[^{}]*\}))*)>>' % re.escape(tag), self._flat):
            res.append(_parse_tla_list(m.group(1)))
        return res

    def coverage(self):
        cov = {}
        for m in re.finditer(r'^<(\w+) line \d+, col \d+ to line \d+, col \d+ of module (\w+)>: (\d+):(\d+)', self.out, re.M):
            cov[m.group(2) + '.' + m.group(1)] = cov.get(m.group(2) + '.' + m.group(1), 0) + int(m.group(4))
        return cov


def _parse_tla_list(s):
    items = []
    for m in re.finditer(r', (-?\d+|"[^"]*"|<<[^<>]*>>|\{[^{}]*\})', s):
        t = m.group(1)
        if t.startswith('"'):
            items.append(t[1:-1])
        elif t.startswith('<<'):
            inner = t[2:-2].strip()
            items.append(_parse_flat(inner))
        elif t.startswith('{'):
            inner = t[1:-1].strip()
            items.append(_parse_flat(inner))
        else:
            items.append(int(t))
    return items


def _parse_flat(inner):
    if not inner:
        return []
    out = []
    for m in re.finditer(r'-?\d+|"[^"]*"', inner):
        t = m.group(0)
        out.append(t[1:-1] if t.startswith('"') else int(t))
    return out


class Ctx:
    def __init__(self, pid, tier, level):
        self.pid = pid
        self.tier = tier
        self.level = level
        self.seed = int(os.environ.get('VERIF_SEED', '0') or 0)
        self.t0 = time.time()
        self.work = WORK / pid
        if self.work.exists():
            shutil.rmtree(self.work, ignore_errors=True)
        self.work.mkdir(parents=True, exist_ok=True)
        self.findings = load_findings(pid)
        self.violations = []      # (signature, what, replay)
        self.pins = {}
        self._pincache = {}
        self.pin_mode = False
        self.cov = {'states': 0, 'transitions': 0, 'traces_validated_against_impl': 0,
                    'samples': [], 'evaluations': 0, 'tlc_jobs': []}
        self.assumptions = []
        self.info = []

    # ---------------------------------------------------------------- TLC
    def tlc(self, module, cfg=None, workers=None, env=None, timeout=3600, extra=(), name=None,
            expect_violation=False, simulate=None, coverage=False, java_opts=None):
        name = name or module
        meta = self.work / ('tlc_' + name)
        if meta.exists():
            shutil.rmtree(meta, ignore_errors=True)
        meta.mkdir(parents=True)
        cmd = ['java', '-XX:+UseParallelGC', '-Xss64m']
        if java_opts:
            cmd += list(java_opts)
        cmd += ['-cp', '/opt/veriftools/tla/tla2tools.jar:/opt/veriftools/tla/CommunityModules-deps.jar',
                'tlc2.TLC', '-workers', str(workers or NCPU), '-metadir', str(meta), '-noGenerateSpecTE']
        if coverage:
            cmd += ['-coverage', '1']
        if simulate:
            cmd += ['-simulate', simulate]
        cmd += list(extra)
        cmd += ['-config', cfg or (module + '.cfg'), module + '.tla']
        e = dict(os.environ)
        e.update({k: str(v) for k, v in (env or {}).items()})
        t = time.time()
        try:
            p = subprocess.run(cmd, cwd=str(SPEC), env=e, stdout=subprocess.PIPE, stderr=subprocess.STDOUT,
                               timeout=timeout, text=True, errors='replace')
            out, rc = p.stdout, p.returncode
        except subprocess.TimeoutExpired as ex:
            out = (ex.stdout or b'').decode('utf8', 'replace') if isinstance(ex.stdout, bytes) else (ex.stdout or '')
            rc = -9
            subprocess.run(['pkill', '-f', str(meta)], check=False)
        wall = time.time() - t
        (self.work / ('tlc_' + name + '.out')).write_text(out)
        shutil.rmtree(meta, ignore_errors=True)
        r = TLCResult(out, rc, wall)
        self.cov['states'] += r.distinct
        self.cov['transitions'] += r.generated
        self.cov['tlc_jobs'].append({'name': name, 'module': module, 'cfg': cfg or module + '.cfg',
                                     'distinct': r.distinct, 'generated': r.generated,
                                     'depth': r.depth, 'wall_s': round(wall, 2), 'rc': rc})
        if rc == -9:
            raise MachineryError('TLC job %s timed out after %ss' % (name, timeout))
        if not expect_violation and not simulate:
            if not r.ok and not r.violated and not r.deadlock:
                tail = '\n'.join(out.splitlines()[-40:])
                raise MachineryError('TLC job %s failed (rc=%s):\n%s' % (name, rc, tail))
        return r

    # ---------------------------------------------------------------- verdicts
    def violation(self, signature, what, replay, pin=None):
        """pin=(key, observed): for findings listed with a pinned-outputs file, the violation is the listed
        finding only if `observed` is exactly the failure recorded for that input; anything else is new."""
        if pin is not None:
            key, observed = pin
            dg = hashlib.sha1(json.dumps(observed, sort_keys=True, default=str).encode()).hexdigest()[:12]
            self.pins.setdefault(signature, {})[key] = dg
            f = next((x for x in self.findings if x['signature'] == signature), None)
            if f is not None and f.get('pinned') and not self.pin_mode:
                table = self._pinned(f['pinned']).get(signature, {})
                if table.get(key) != dg:
                    signature = signature + '#not-the-listed-failure'
                    what = what + ' (this input is not among the listed failures of the known finding, or fails differently)'
        self.violations.append((signature, what, replay))

    def _pinned(self, rel):
        if rel not in self._pincache:
            path = VERIF / rel
            self._pincache[rel] = json.loads(path.read_text()) if path.exists() else {}
        return self._pincache[rel]

    def write_pins(self):
        """Developer action (./check <ID> --pin): record the exact failing inputs/outputs of listed findings."""
        out = {}
        for f in self.findings:
            if f.get('pinned') and f['signature'] in self.pins:
                out.setdefault(f['pinned'], {})[f['signature']] = self.pins[f['signature']]
        for rel, tables in out.items():
            path = VERIF / rel
            path.parent.mkdir(exist_ok=True)
            old = json.loads(path.read_text()) if path.exists() else {}
            for sig, tab in tables.items():
                old.setdefault(sig, {}).update(tab)
            path.write_text(json.dumps(old, sort_keys=True, indent=0) + '\n')
            print('pinned %d failing inputs into %s' % (sum(len(t) for t in tables.values()), rel))

    def note(self, msg):
        self.info.append(msg)
        print('INFO: ' + msg)

    def sample(self, obj, cap=8):
        if len(self.cov['samples']) < cap:
            self.cov['samples'].append(obj)

    def finish(self, extra_cov=None, exhaustive=None):
        known = {f['signature']: f for f in self.findings}
        seen_known = {}
        new = {}
        for sig, what, replay in self.violations:
            if sig in known:
                seen_known.setdefault(sig, (what, replay))
            else:
                new.setdefault(sig, (what, replay))
        for sig, f in known.items():
            if sig in seen_known:
                print('KNOWN-FINDING: property=%s %s -- %s' % (self.pid, sig, f.get('what', seen_known[sig][0])))
            else:
                print('INFO: listed finding not reproduced in this run (tier=%s): %s' % (self.tier, sig))
        rdir = self.work / 'replay'
        rdir.mkdir(exist_ok=True)
        for k_, (sig, (what, replay)) in enumerate(sorted(seen_known.items())):     # one example per reproduced listed finding
            (rdir / ('known_%03d.json' % (k_ + 1))).write_text(json.dumps({'property': self.pid, 'signature': sig, 'what': what,
                                                                          'replay': replay}, indent=1, default=str))
        n = 0
        for sig, (what, replay) in new.items():
            n += 1
            path = rdir / ('violation_%03d.json' % n)
            path.write_text(json.dumps({'property': self.pid, 'signature': sig, 'what': what,
                                        'replay': replay}, indent=1, default=str))
            print('VIOLATION property=%s replay=%s' % (self.pid, path))
            print('  signature: %s\n  what: %s' % (sig, what))
        cov = self.cov
        if extra_cov:
            cov.update(extra_cov)
        if exhaustive is not None:
            cov['exhaustive'] = exhaustive
        cov['known_findings_reproduced'] = sorted(seen_known)
        cov['info'] = self.info[:50]
        if not cov['samples']:
            cov['samples'] = ['(no sample recorded)']
        ev = {'property_id': self.pid, 'tier': self.tier, 'seed': self.seed, 'level': self.level,
              'coverage': cov, 'assumptions': self.assumptions,
              'wall_s': round(time.time() - self.t0, 2), 'violations': len(new)}
        EVID.mkdir(exist_ok=True)
        (EVID / (self.pid + '.json')).write_text(json.dumps(ev, indent=1, default=str) + '\n')
        print('%s tier=%s: %d new violation(s), %d known finding(s) reproduced, wall %.1fs'
              % (self.pid, self.tier, len(new), len(seen_known), time.time() - self.t0))
        return 1 if new else 0


def run_py(script_args, env=None, timeout=3600, input_text=None):
    """Run a driver under the repository's interpreter with hooks enabled."""
    e = dict(os.environ)
    e.update({'PYTHONPATH': '%s:%s' % (REPO, VERIF), 'MINDSDB_SQL_VERIF': '1', 'PYTHONHASHSEED': '0',
              'PYTHONDONTWRITEBYTECODE': '1'})
    e.update({k: str(v) for k, v in (env or {}).items()})
    p = subprocess.run([PY] + list(script_args), env=e, stdout=subprocess.PIPE, stderr=subprocess.PIPE,
                       timeout=timeout, text=True, input=input_text, cwd=str(VERIF))
    return p


def chunks(lst, n):
    k = max(1, (len(lst) + n - 1) // n)
    return [lst[i:i + k] for i in range(0, len(lst), k)]


def dump_json(path, obj):
    with open(path, 'w') as f:
        json.dump(obj, f, separators=(',', ':'))
