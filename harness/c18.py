"""C18 -- tree copies are independent; equality of trees, steps and plans is lawful.

design : Heap.tla -- after a deep copy the reachable mutable sets are disjoint and no mutation script of the copy
         changes what the original prints; a hand-written copy that knows a fixed field list shares or drops every
         field outside the list (TLC exhibits both).
replay : for every corpus tree (parser-produced statements of the three dialects, plans of the planner corpus):
         copy() and deepcopy(); the sets of reachable mutable objects must be disjoint; the copy must be equal, print
         identically and have the same projection; every single-attribute mutation of the copy that the spec names
         (set a scalar, append to / remove from a list, set a dict key, re-point a reference, change alias / parts)
         must leave the original's projection and text unchanged.  == must be reflexive and symmetric on trees, steps,
         plans and Result; equal objects print the same; two plans built from equal steps are ==; hash(Result) works.
         The observations are judged by TLC (HeapTrace).
"""
import copy
import json
import random

from .common import MachineryError, dump_json
from .corpus import pmap, accepted
from .project import proj, jdump, walk_objects
from . import plancorpus

IMMUTABLE = (str, int, float, bool, bytes, type(None), frozenset, tuple)
EXTRA = [
    "select a, b from t1 using opts = {\"layers\": [1, 2], \"nested\": {\"k\": [3]}}",
    "create model m predict y using opts = {\"layers\": [1, 2]}, stops = [10, 20]",
    "create database d with engine = 'x', parameters = {\"ssl\": {\"verify\": true}, \"ports\": [1, 2]}",
] + [tmpl % js for js in ('[1, [2, 3]]', '["dense", {"units": 8}]', '{"a": [1, {"b": [2]}]}', '[[1], [2]]', '[null, [1], {"k": []}]', '[1.5, "x", [true, [false]]]')
       for tmpl in ('select a from t1 join mindsdb.m using opts = %s', 'create model m predict y using opts = %s', 'retrain m using opts = %s',
                    'finetune m from db (select 1) using opts = %s', 'evaluate acc from (select 1) using opts = %s',
                    "create database d with engine = 'x', parameters = {\"p\": %s}", 'create agent ag using model = \'m\', opts = %s',
                    "create skill sk using type = 't', opts = %s", "create ml_engine e from h using opts = %s",
                    "create knowledge base kb using model = m, opts = %s", "update agent ag set opts = %s",
                    "create chatbot cb using database = 'd', agent = 'a', opts = %s")] + [
    "select (a), (b + 1) from t1 where (c) = 1",
    "select `order`, t.`select` from t as t",
    "create table t (a int, b text, c serial)",
    # aliases that contain a dot (attached by the parser after construction, so a constructor never sees them)
    'select a as "x.y", b x.y, c as `p.q` from t as "s.t"',
    'select * from int1.t1 as "d.e" join mindsdb.pred.3 as "m.v"',
    "delete from t where a in (select b as 'x.y' from u as \"v.w\")",
    'select f(a) as "f.g", (select 1) as "h.i" from t',
]


def mutables(root):
    out = {}

    def visit(o, path):
        if isinstance(o, IMMUTABLE):
            return 'stop'
        out[id(o)] = (o, path)
    walk_objects(root, visit)
    return out


def safe_str(x):
    try:
        return str(x)
    except Exception as e:   # noqa
        return 'STR-RAISES:%s' % type(e).__name__


def mutate_all(orig, make_copy, how):
    """Apply every single-attribute mutation to a fresh copy; report those after which the original changed."""
    from mindsdb_sql.parser.ast import Identifier, Constant
    base = jdump(proj(orig, private=True))
    base_s = safe_str(orig)
    by_path = {tuple(pth): o for o, pth in mutables(orig).values()}
    problems = []
    n = 0
    targets = list(mutables(make_copy()).values())
    for idx in range(len(targets)):
        cp = make_copy()
        ms = list(mutables(cp).values())
        if idx >= len(ms):
            break
        obj, path = ms[idx]
        muts = []
        if isinstance(obj, list):
            muts = [('append', lambda o=obj: o.append(Constant(12345))), ('clear', lambda o=obj: o.clear())]
            if obj:
                muts.append(('set-item', lambda o=obj: o.__setitem__(0, Constant(54321))))
        elif isinstance(obj, dict):
            muts = [('set-key', lambda o=obj: o.__setitem__('__verif__', [1])), ('clear', lambda o=obj: o.clear())]
        elif hasattr(obj, '__dict__'):
            for name in list(vars(obj)):
                if name.startswith('__'):
                    continue
                muts.append(('set-attr:' + name, lambda o=obj, nm=name: setattr(o, nm, Identifier('zz_mutated'))))
            if hasattr(obj, 'alias'):
                muts.append(('alias', lambda o=obj: setattr(o, 'alias', Identifier('zz_alias'))))
            if hasattr(obj, 'parts') and isinstance(getattr(obj, 'parts', None), list):
                muts.append(('parts-append', lambda o=obj: o.parts.append('zz')))
        for mi, (mname, fn) in enumerate(muts):
            if mi > 0:
                cp = make_copy()
                ms2 = list(mutables(cp).values())
                if idx >= len(ms2):
                    break
                obj2 = ms2[idx][0]
                # rebuild the mutation on the fresh copy's object
                if isinstance(obj2, list):
                    fn = {'append': lambda o=obj2: o.append(Constant(12345)), 'clear': lambda o=obj2: o.clear(),
                          'set-item': lambda o=obj2: o.__setitem__(0, Constant(54321))}.get(mname, fn)
                elif isinstance(obj2, dict):
                    fn = {'set-key': lambda o=obj2: o.__setitem__('__verif__', [1]), 'clear': lambda o=obj2: o.clear()}.get(mname, fn)
                elif mname.startswith('set-attr:'):
                    fn = (lambda o=obj2, nm=mname[9:]: setattr(o, nm, Identifier('zz_mutated')))
                elif mname == 'alias':
                    fn = (lambda o=obj2: setattr(o, 'alias', Identifier('zz_alias')))
                elif mname == 'parts-append':
                    fn = (lambda o=obj2: o.parts.append('zz'))
            try:
                fn()
            except Exception:   # noqa
                continue
            n += 1
            # equal objects print the same: the mutated node against its counterpart in the original
            twin = by_path.get(tuple(path))
            mobj = obj if mi == 0 else obj2
            if twin is not None and hasattr(mobj, 'to_string') and type(twin) is type(mobj):
                try:
                    if (twin == mobj) is True and safe_str(twin) != safe_str(mobj):
                        problems.append({'path': '/'.join(str(p) for p in path), 'mutation': mname, 'how': how,
                                         'class': type(mobj).__name__, 'equal_but_prints_differently': True})
                        return n, problems
                except Exception:   # noqa
                    pass
            if jdump(proj(orig, private=True)) != base or safe_str(orig) != base_s:
                problems.append({'path': '/'.join(str(p) for p in path), 'mutation': mname, 'how': how,
                                 'class': type(ms[idx][0]).__name__})
                return n, problems       # the original is damaged: stop with this tree
    return n, problems


def _tree_case(args):
    sql, dialect = args
    from mindsdb_sql import parse_sql
    try:
        tree = parse_sql(sql, dialect)
    except Exception:   # noqa
        return None
    out = {'sql': sql, 'dialect': dialect, 'facts': []}
    for how, fn in (('copy()', lambda t: t.copy()), ('deepcopy', lambda t: copy.deepcopy(t))):
        try:
            cp = fn(tree)
        except Exception as e:   # noqa
            out['facts'].append({'how': how, 'raises': type(e).__name__})
            continue
        shared = set(mutables(tree)) & set(mutables(cp))
        sh = [mutables(tree)[i][1] for i in list(shared)[:3]]
        try:
            eq1, eq2 = (cp == tree), (tree == cp)
        except Exception as e:   # noqa
            eq1 = eq2 = 'raises:' + type(e).__name__
        try:
            refl = (tree == tree) is True
        except Exception as e:   # noqa  (code under test: an original damaged through a shared object may not even compare)
            refl = False
        f = {'how': how, 'shared': len(shared), 'shared_paths': ['/'.join(str(p) for p in x) for x in sh],
             'equal': eq1 is True and eq2 is True, 'symmetric': eq1 == eq2, 'reflexive': refl,
             'same_print': safe_str(cp) == safe_str(tree), 'same_projection': jdump(proj(cp)) == jdump(proj(tree))}
        n, problems = mutate_all(tree, lambda t=tree, g=fn: g(t), how)
        f['mutations'] = n
        f['damaged'] = problems
        out['facts'].append(f)
    return out


def _plan_case(args):
    sql, kw, query = args
    from mindsdb_sql import parse_sql
    from mindsdb_sql.planner import plan_query
    from mindsdb_sql.planner.query_plan import QueryPlan
    from mindsdb_sql.planner.step_result import Result
    try:
        q1 = copy.deepcopy(query) if query is not None else parse_sql(sql, 'mindsdb')
        q2 = copy.deepcopy(query) if query is not None else parse_sql(sql, 'mindsdb')
        p1 = plan_query(q1, **copy.deepcopy(kw))
        p2 = plan_query(q2, **copy.deepcopy(kw))
    except Exception:   # noqa
        return None
    out = {'sql': sql, 'facts': {}}
    f = out['facts']
    try:
        f['plan_reflexive'] = (p1 == p1) is True
        f['plan_equal_when_built_from_equal_steps'] = (p1 == p2) is True and (p2 == p1) is True
        f['steps_equal'] = all((a == b) is True and (b == a) is True for a, b in zip(p1.steps, p2.steps)) and len(p1.steps) == len(p2.steps)
        f['steps_reflexive'] = all((a == a) is True for a in p1.steps)
        rebuilt = QueryPlan(steps=list(p1.steps))
        f['plan_rebuilt_equal'] = (rebuilt == p1) is True
        f['same_projection'] = jdump(proj(p1.steps)) == jdump(proj(p2.steps))
    except Exception as e:   # noqa
        f['raises'] = '%s: %s' % (type(e).__name__, str(e)[:80])
    try:
        r = [s.result for s in p1.steps]
        f['result_hash_total'] = all(isinstance(hash(x), int) for x in r)
        f['result_eq'] = all((x == copy.deepcopy(x)) is True for x in r) and (Result(0) == Result(0)) is True and \
            not (Result(0) == Result(1))
        f['result_hash_consistent'] = all(hash(x) == hash(copy.deepcopy(x)) for x in r)
    except Exception as e:   # noqa
        f['result_raises'] = '%s: %s' % (type(e).__name__, str(e)[:80])
    # copies of steps are independent too
    try:
        for s in p1.steps:
            cp = copy.deepcopy(s)
            if set(mutables(s)) & set(mutables(cp)):
                f['step_copy_shares'] = type(s).__name__
                break
    except Exception as e:   # noqa
        f['step_copy_raises'] = type(e).__name__
    return out


CROSS_SQL = ['select * from int1.t1 as t join mindsdb.pred as m', 'select t.a, m.y from int1.t1 as t join mindsdb.pred as m where t.a > 1',
             'select * from int1.t1 as t join mindsdb.pred as m where t.ts > latest', 'select * from mindsdb.pred where a = 1',
             'select * from int1.t1 as t join int2.t2 as u on t.a = u.a', 'select * from int1.t1 as t join mindsdb.pred as m limit 3',
             'select * from int1.t1 where a in (select a from int2.t2)', 'select a from int1.t1 union select a from int2.t2',
             'delete from int1.t1 where a = 1', 'insert into int1.t1 (a) select a from int2.t2',
             'update int1.t1 set a = 1 from (select a from int2.t2) as s where t1.a = s.a', 'select t.a as x, t.b from int1.t1 as t',
             # statements whose printed form is long (several hundred characters): a difference in the LAST item must count
             'select ' + ', '.join('c%d + 1' % i for i in range(70)) + ' from int1.t1',
             'create table int1.t9 (' + ', '.join('c%d varchar(10)' % i for i in range(50)) + ')',
             'select a from int1.t1 where ' + ' and '.join('c%d = %d' % (i, i) for i in range(60)) + ' and (c99 = 1 or c98 = 2)']


def _cross_case(sql):
    """The same query planned under catalogs that differ in what `pred` is (ordinary model / time-series model) and in how
    the catalog is written; all steps and plans compared pairwise, both ways."""
    from mindsdb_sql import parse_sql
    from mindsdb_sql.planner import plan_query
    cats = []
    for ts in (False, True, 'no-groups'):
        pm = {'name': 'pred', 'integration_name': 'mindsdb'}
        if ts:
            # with and without partition columns (without them the plan has the same shape as for an ordinary model)
            pm.update({'timeseries': True, 'window': 3, 'order_by_column': 'ts', 'group_by_columns': ['g'] if ts is True else [],
                       'horizon': 1})
        cats.append(dict(integrations=['int1', 'int2'], default_namespace='mindsdb', predictor_metadata=[pm]))
        cats.append(dict(integrations=[{'name': 'int1', 'type': 'data'}, {'name': 'int2', 'type': 'data'}], default_namespace='mindsdb',
                         predictor_metadata=[dict(pm)]))
    import re as _re
    from mindsdb_sql.parser.ast.base import ASTNode
    # the same statement with the table / column names in another letter case: different names, so nothing built from one
    # spelling may compare equal to its counterpart built from the other
    sql_case = _re.sub(r'\b(int[12]\.)(\w+)', lambda m_: m_.group(1) + m_.group(2).capitalize(), sql)
    # ... and the statement with an optional clause taken away (objects that differ in ONE field: an attribute that one of
    # them simply does not have must not make the comparison depend on which side is asked)
    variants = [sql, sql_case]
    for pat in (r'\swhere\s.*$', r'\slimit\s+\d+\s*$', r'\son\s+[\w.]+\s*=\s*[\w.]+'):
        v_ = _re.sub(pat, '', sql, flags=_re.I)
        if v_ != sql and v_ not in variants:
            variants.append(v_)
    # ... and with one late detail changed: the last select target in parentheses, the last column's length, the last condition
    for pat, rep in ((r', ([^,()]+) from ', r', (\1) from '), (r'varchar\(10\)\)$', 'varchar(20))'), (r' and \((c99 = 1 or c98 = 2)\)$', r' and \1')):
        v_ = _re.sub(pat, rep, sql, count=1)
        if v_ != sql and v_ not in variants:
            variants.append(v_)
    objs = []
    for text in variants:
        for kw in (cats if text != sql_case else cats[:1]):
            try:
                tree = parse_sql(text, 'mindsdb')
                p = plan_query(parse_sql(text, 'mindsdb'), **kw)
            except Exception:   # noqa
                continue
            objs.append(p)
            objs += list(p.steps)
            if kw is cats[0]:
                # sub-nodes of the parsed statement and the nodes held by the steps
                def nodes(o, acc, seen):
                    if id(o) in seen or o is None or isinstance(o, (str, int, float, bool)):
                        return
                    seen.add(id(o))
                    if isinstance(o, ASTNode):
                        acc.append(o)
                    if isinstance(o, (list, tuple)):
                        for x in o:
                            nodes(x, acc, seen)
                    elif isinstance(o, dict):
                        for x in o.values():
                            nodes(x, acc, seen)
                    elif hasattr(o, '__dict__'):
                        for x in vars(o).values():
                            nodes(x, acc, seen)
                acc = []
                nodes(tree, acc, set())
                for st_ in p.steps:
                    nodes(st_, acc, set())
                objs += [n_ for n_ in acc if type(n_).__name__ in ('Identifier', 'Constant', 'BinaryOperation', 'Function')][:25]
    projs = [jdump(proj(o)) for o in objs]
    out = []
    eqm = {}
    for i, a in enumerate(objs):
        for j, b in enumerate(objs):
            if j < i:
                continue
            rec = {'kind': 'pair', 'raises': 0, 'eq': 0, 'eq_rev': 0, 'same_projection': int(projs[i] == projs[j]), 'trans': 1,
                   'a': type(a).__name__, 'b': type(b).__name__, 'sql': sql}
            try:
                rec['eq'] = int((a == b) is True)
                rec['eq_rev'] = int((b == a) is True)
            except Exception as e:   # noqa
                rec['raises'] = 1
            eqm[(i, j)] = eqm[(j, i)] = rec['eq'] and rec['eq_rev']
            out.append(rec)
    # transitivity over the collected objects
    n = len(objs)
    bad = None
    for i in range(n):
        for j in range(n):
            if i != j and eqm.get((i, j)):
                for k in range(n):
                    if k not in (i, j) and eqm.get((j, k)) and not eqm.get((i, k)):
                        bad = (i, j, k)
    if bad:
        out.append({'kind': 'pair', 'raises': 0, 'eq': 1, 'eq_rev': 1, 'same_projection': 1, 'trans': 0,
                    'a': type(objs[bad[0]]).__name__, 'b': type(objs[bad[2]]).__name__, 'sql': sql})
    # keep the interesting pairs only (different objects that are equal, or same projections that are unequal) plus a sample
    keep = [r for r in out if r['raises'] or r['eq'] != r['eq_rev'] or (r['eq'] and not r['same_projection']) or
            (r['same_projection'] and not r['eq']) or not r['trans']]
    return keep + out[:40], len(out)


def run(ctx):
    thorough = ctx.tier == 'thorough'
    rng = random.Random(ctx.seed + 18)
    for cfg, want in (('Heap_deep_all.cfg', None), ('Heap_fixed-share_all.cfg', None), ('Heap_fixed-share_two.cfg', 'Disjoint'),
                      ('Heap_fixed-drop_two.cfg', 'CopyEqual')):
        r = ctx.tlc('Heap', cfg=cfg, workers=2, name=cfg[:-4], expect_violation=bool(want))
        if want:
            if want not in r.violated:
                raise MachineryError('spec sharpness lost: Heap %s does not exhibit %s' % (cfg, want))
        elif r.violated or not r.ok:
            raise MachineryError('Heap %s: %s' % (cfg, r.violated))
    cases = [(s, 'mindsdb') for s in EXTRA]
    for d in ('mindsdb', 'mysql', 'sqlite'):
        acc = [s for s in accepted(d) if len(s) < 500]
        rng.shuffle(acc)
        cases += [(s, d) for s in acc[:(100000 if thorough else 120)]]
    trees = [t for t in pmap(_tree_case, cases, chunksize=8) if t]
    pcs = [(h['sql'], h['kwargs'], h.get('query')) for h in plancorpus.harvest()]
    gen = plancorpus.generated()
    rng.shuffle(gen)
    pcs += [(s, plancorpus.catalog('dicts', with_ts=True), None) for s in gen[:(2000 if thorough else 150)]]
    plans = [p for p in pmap(_plan_case, pcs, chunksize=16) if p]
    obs, meta = [], []
    for t in trees:
        for f in t['facts']:
            o = {'kind': 'tree', 'raises': 1 if 'raises' in f else 0, 'shared': f.get('shared', 0),
                 'equal': int(bool(f.get('equal'))), 'symmetric': int(bool(f.get('symmetric'))),
                 'reflexive': int(bool(f.get('reflexive'))), 'same_print': int(bool(f.get('same_print'))),
                 'same_projection': int(bool(f.get('same_projection'))),
                 'damaged': len([d for d in (f.get('damaged') or []) if not d.get('equal_but_prints_differently')]),
                 'eqprint': len([d for d in (f.get('damaged') or []) if d.get('equal_but_prints_differently')])}
            obs.append(o)
            meta.append(('tree', t, f))
    for p in plans:
        f = p['facts']
        o = {'kind': 'plan', 'raises': 1 if ('raises' in f or 'result_raises' in f or 'step_copy_raises' in f) else 0}
        for k in ('plan_reflexive', 'plan_equal_when_built_from_equal_steps', 'steps_equal', 'steps_reflexive',
                  'plan_rebuilt_equal', 'result_hash_total', 'result_eq', 'result_hash_consistent'):
            o[k] = int(bool(f.get(k)))
        o['step_copy_shares'] = 1 if f.get('step_copy_shares') else 0
        o['deterministic'] = int(bool(f.get('same_projection')))
        obs.append(o)
        meta.append(('plan', p, f))
    gen2 = [s_ for s_ in gen[:(300 if thorough else 40)]]
    n_pairs = 0
    for recs, n_ in pmap(_cross_case, CROSS_SQL + gen2, chunksize=4):
        n_pairs += n_
        for r_ in recs:
            obs.append({k: v for k, v in r_.items() if k not in ('a', 'b', 'sql')})
            meta.append(('pair', {'sql': r_['sql']}, r_))
    ctx.cov['cross_catalog_pairs_compared'] = n_pairs
    path = ctx.work / 'heapobs.json'
    dump_json(path, obs)
    tr = ctx.tlc('HeapTrace', env={'VERIF_TRACES': path}, name='heaptrace', timeout=3000)
    if not tr.ok:
        raise MachineryError('HeapTrace failed: %s' % tr.errors[:3])
    ver = {x[0]: x[1] for x in tr.prints('ACC')}
    if len(ver) != len(obs):
        raise MachineryError('HeapTrace judged %d of %d' % (len(ver), len(obs)))
    n_mut = 0
    for i, (kind, case, f) in enumerate(meta):
        if kind == 'tree':
            n_mut += f.get('mutations', 0)
        for flag in ver[i + 1]:
            if kind == 'tree':
                root = type(case.get('_root', None)).__name__
                det = f.get('damaged') or f.get('shared_paths') or f.get('raises')
                where = ''
                if flag == 'EqualObjectsPrintDifferently':
                    d0 = [d for d in (f.get('damaged') or []) if d.get('equal_but_prints_differently')]
                    where = ':%s.%s' % (d0[0]['class'], d0[0]['mutation']) if d0 else ''
                if flag in ('SharedMutableObject', 'MutationOfCopyChangesOriginal'):
                    paths = f.get('shared_paths') or [d['path'] for d in (f.get('damaged') or [])]
                    # the attribute name at which sharing starts is the input-side coordinate
                    where = ':' + (paths[0].split('/')[-1] if paths and paths[0] else 'root')
                ctx.violation('%s:%s%s' % (flag, f['how'], where), 'tree copy: %s' % flag,
                              {'sql': case['sql'], 'dialect': case['dialect'], 'detail': det}, pin=(case['sql'], flag))
            elif kind == 'pair':
                ctx.violation('%s:%s-vs-%s' % (flag, f['a'], f['b']), 'objects from plans of one query under different catalogs: %s' % flag,
                              {'sql': case['sql'], 'classes': [f['a'], f['b']], 'facts': f})
            else:
                ctx.violation('%s' % flag, 'plan / step / result equality: %s' % flag,
                              {'sql': case['sql'], 'facts': f}, pin=(case['sql'], flag))
    ctx.cov['traces_validated_against_impl'] = len(obs)
    ctx.cov['evaluations'] = len(obs) + n_mut
    ctx.cov['trees'] = len(trees)
    ctx.cov['plans'] = len(plans)
    ctx.cov['mutations_applied'] = n_mut
    ctx.sample({'sql': trees[0]['sql'], 'facts': [{k: v for k, v in f.items() if k != 'damaged'} for f in trees[0]['facts']]})
    if plans:
        ctx.sample({'sql': plans[0]['sql'], 'facts': plans[0]['facts']})
    ctx.assumptions += ['mutations: every attribute of every reachable mutable object set to a new node, lists appended / '
                        'cleared / item replaced, dict keys set, alias and parts changed (one at a time)',
                        'the projection used to detect a change includes underscore-private attributes']
    return ctx.finish(exhaustive=False)


def replay(ctx, path):
    rec = json.load(open(path))['replay']
    print(json.dumps(rec, indent=1)[:3000])
    return 0
