"""C10 -- every table and model in a query is routed to the place its name resolves to.

spec    : Routing.tla -- the name-resolution contract (Resolve, ModelOf) and the obligations on routing facts.
cases   : queries with a table of a second integration / a model in every position the property lists (FROM, JOIN,
          subquery in WHERE / select list / CASE operand / function argument, CTE, INSERT..SELECT, UPDATE..FROM,
          DELETE) x spellings of the qualifiers (lower, UPPER, Mixed) x catalogs (names, dicts, legacy dict, no default).
judge   : the table occurrences of the ORIGINAL query are found by an independent reflection walk (not by
          query_traversal); the routing facts (tables inside every fetch step's query, apply-predictor steps) are read
          off the real plan by the same walk; TLC (Routing.tla) decides the obligations.
"""
import copy
import json

from .common import MachineryError, dump_json
from .corpus import pmap
from .tlaparse import find_prints
from . import plancorpus
from .project import walk_objects

POSITIONS = {
    'from': 'select * from {T} where a = 1',
    'join': 'select * from int1.t1 as t1 join {T} as x on t1.a = x.a',
    'join-first': 'select * from {T} as x join int1.t1 as t1 on t1.a = x.a',
    'subquery-where-in': 'select * from int1.t1 where a in (select a from {T})',
    'subquery-where-scalar': 'select * from int1.t1 where a = (select max(a) from {T})',
    'subquery-target': 'select a, (select max(a) from {T}) as m from int1.t1',
    'subquery-case-operand': 'select case (select max(a) from {T}) when 1 then 2 else 3 end from int1.t1',
    'subquery-case-when': 'select case when a > (select max(a) from {T}) then 2 else 3 end from int1.t1',
    'subquery-function-arg': 'select coalesce(b, (select max(a) from {T})) from int1.t1',
    'subquery-from': 'select * from (select * from {T}) as s join int1.t1 as t1 on t1.a = s.a',
    'cte': 'with c as (select * from {T}) select * from int1.t1 as t1 join c on t1.a = c.a',
    'union': 'select a from int1.t1 union select a from {T}',
    'insert-select': 'insert into int1.t9 (a) select a from {T}',
    'update-from': 'update int1.t1 set b = s.a from (select a from {T}) as s where t1.a = s.a',
    'delete-subquery': 'delete from int1.t1 where a in (select a from {T})',
    'create-table-select': 'create table int1.t9 (select a from {T})',
    'exists': 'select * from int1.t1 where exists (select 1 from {T})',
    'same-integration-join': 'select * from {T} as x join {T2} as y on x.a = y.a',
    # the same model twice with different versions; a model after a sub-select that reads the same model
    'two-model-versions': 'select * from int1.t1 as t join proj.pred2.1 as m1 join proj.pred2.2 as m2',
    'model-version-and-plain': 'select * from int1.t1 as t join proj.pred2.3 as m1 join proj.pred2 as m2',
    'two-models-then-table': 'select * from int1.t1 as t join mindsdb.pred.7 as m1 join {T} as x on x.a = t.a join mindsdb.pred.8 as m2',
    # three-part names whose middle part (a schema inside the integration) is spelled like ANOTHER integration
    'schema-named-like-integration-from': 'select * from int1.int2.t5 where a in (select a from {T})',
    'schema-named-like-integration-join': 'select * from int1.int2.t5 as a join {T} as b on a.a = b.a',
    'schema-named-like-integration-join-2nd': 'select * from {T} as b join int2.int1.t6 as a on a.a = b.a',
    'schema-named-like-project-join': 'select * from int1.mindsdb.t5 as a join {T} as b on a.a = b.a',
    # versioned and plain references to one model in different places of one statement
    'model-plain-outer-versioned-subquery': 'select * from mindsdb.pred where a = (select b from mindsdb.pred.3 where a = 1)',
    'model-versioned-outer-plain-subquery': 'select * from mindsdb.pred.3 where a = (select b from mindsdb.pred where a = 1)',
    'model-plain-then-versioned-in-table-subquery': 'select * from int1.t1 where a in (select b from mindsdb.pred.3 where a = 1) and b in (select b from mindsdb.pred where a = 2)',
    # a CTE whose name equals the last part of an integration-qualified table of the same statement
    'cte-name-shadows-table': 'with t2 as (select * from int2.t5) select * from int1.t2 as a join {T} as b on a.a = b.a',
    'cte-name-shadows-single-table': 'with t2 as (select * from int2.t5) select * from int1.t2 where a in (select a from {T})',
    'cte-and-same-named-table-both-used': 'with t2 as (select * from int2.t5) select * from t2 join int1.t2 as b on t2.a = b.a join {T} as c on c.a = b.a',
    # sub-selects in the remaining clauses of a select
    'subquery-having': 'select a from int1.t1 group by a having count(*) > (select max(a) from {T})',
    'subquery-order-by': 'select a from int1.t1 order by (select max(a) from {T})',
    'subquery-group-by': 'select count(*) from int1.t1 group by (select max(a) from {T})',
    # ... and of a select that JOINS tables of two integrations (planned by the join planner, not the single-select path)
    'join-outer-subquery-having': 'select t1.a, count(*) from int1.t1 as t1 join int2.t5 as u on t1.a = u.a group by t1.a having count(*) > (select max(a) from {T})',
    'join-outer-subquery-order-by': 'select t1.a from int1.t1 as t1 join int2.t5 as u on t1.a = u.a order by (select max(a) from {T})',
    'join-outer-subquery-group-by': 'select count(*) from int1.t1 as t1 join int2.t5 as u on t1.a = u.a group by (select max(a) from {T})',
    'join-outer-subquery-target': 'select t1.a, (select max(a) from {T}) as mx from int1.t1 as t1 join int2.t5 as u on t1.a = u.a',
    'join-outer-subquery-where': 'select t1.a from int1.t1 as t1 join int2.t5 as u on t1.a = u.a where t1.b in (select a from {T})',
    'subquery-join-on': 'select * from int1.t1 as t1 join int1.t3 as t3 on t1.a = t3.a and t3.b in (select a from {T})',
    'subquery-between': 'select * from int1.t1 where a between 1 and (select max(a) from {T})',
    'subquery-not-in': 'select * from int1.t1 where a not in (select a from {T})',
    'subquery-typecast': 'select * from int1.t1 where a = cast((select max(a) from {T}) as int)',
    'subquery-nested': 'select * from int1.t1 where a in (select a from int1.t3 where b in (select a from {T}))',
    # columns written with the integration qualifier (also a qualified star), alone / pushed down with a same-integration join
    'qualified-star': 'select int1.t1.* from int1.t1 where int1.t1.a in (select a from {T})',
    'qualified-columns': 'select int1.t1.a, int1.t1.b as bb from int1.t1 where int1.t1.a = 1 and b in (select a from {T}) order by int1.t1.a',
    'qualified-columns-same-integration-join': 'select int1.t1.*, int1.t3.a from int1.t1 join int1.t3 on int1.t1.a = int1.t3.a where int1.t1.b in (select a from {T})',
    'qualified-star-join': 'select int1.t1.*, x.a from int1.t1 join {T} as x on int1.t1.a = x.a',
}
# every sub-select position also with a sub-select body that JOINS a table of the outer integration with the target
for _k, _v in list(POSITIONS.items()):
    if 'from {T})' in _v and not _k.startswith(('cte', 'schema', 'qualified')):
        POSITIONS[_k + '-joined-body'] = _v.replace('from {T})', 'from int1.t3 as y join {T} as x on x.a = y.a)') \
            .replace('select a from int1.t3', 'select x.a from int1.t3').replace('select max(a) from int1.t3', 'select max(x.a) from int1.t3') \
            .replace('select * from int1.t3', 'select x.* from int1.t3')
# lists longer than a handful (a walker may stop looking at a threshold): the interesting item comes late
for _n in (20, 70, 140):
    _lits = ', '.join(str(i) for i in range(_n))
    POSITIONS['subquery-late-in-list-%d' % _n] = 'select * from int1.t1 where a in (%s, (select max(a) from {T}), 7)' % _lits
    POSITIONS['qualified-column-late-in-list-%d' % _n] = 'select * from int1.t1 where a in (%s, int1.t1.b, 7) and b in (select a from {T})' % _lits
    POSITIONS['subquery-late-in-function-args-%d' % _n] = 'select coalesce(%s, (select max(a) from {T})) from int1.t1' % _lits
POSITIONS['nested-from-where-subquery'] = 'select * from (select * from int1.t1) as s where s.a in (select a from {T})'
POSITIONS['nested-from-where-subquery-deep'] = 'select * from (select * from (select * from int1.t1) as u where u.a in (select a from {T})) as s'
POSITIONS['nested-from-target-subquery'] = 'select s.a, (select max(a) from {T}) as m from (select * from int1.t1) as s'
# every SELECT statement also below the top level: as the source of an INSERT / CREATE TABLE, as a branch of a set operation,
# as a derived table (once and twice nested)
WRAPPERS = {
    'insert-source': 'insert into int2.t9 {Q}',
    'create-table-source': 'create table int2.t9 ({Q})',
    'union-branch': 'select * from int2.z1 union {Q}',
    'derived-table': 'select * from ({Q}) as w',
    'derived-table-twice': 'select * from (select * from ({Q}) as w1) as w2',
}
for _k, _v in list(POSITIONS.items()):
    if _v.startswith('select') and not _k.startswith(('schema', 'two-model', 'model-')):
        for _wk, _wv in WRAPPERS.items():
            POSITIONS['%s@%s' % (_k, _wk)] = _wv.replace('{Q}', _v)
TARGETS = {
    'table-other-int': ('int2.t2', 'int2.t5'),
    'table-same-int': ('int1.t6', 'int1.t7'),
    'table-default-ns': ('t7', 't8'),
    'model': ('mindsdb.pred', 'mindsdb.pred'),
    'model-versioned': ('proj.pred2.3', 'proj.pred2.3'),
    'project-table': ('proj.v1', 'proj.v2'),
    # a model / a table of the project that list-form models WITHOUT integration_name live in (predictor_namespace)
    'model-implied-namespace': ('models.pred.3', 'models.pred'),
    'table-in-implied-namespace': ('models.saved_view', 'models.v2'),
}


LOCAL_CATALOGS = {
    # list-form models, one of them without integration_name: it lives in predictor_namespace, which is not `mindsdb`
    'implied-models-namespace': dict(integrations=['int1', 'int2'], predictor_namespace='models', default_namespace='mindsdb',
                                     predictor_metadata=[{'name': 'pred'}, {'name': 'pred2', 'integration_name': 'proj', 'to_predict': ['y']}]),
}


def cat_of(name):
    return copy.deepcopy(LOCAL_CATALOGS[name]) if name in LOCAL_CATALOGS else plancorpus.catalog(name)


def spell(name, how):
    parts = name.split('.')
    if how == 'lower' or len(parts) == 1:
        return name
    q = parts[0].upper() if how == 'upper' else parts[0].capitalize()
    return '.'.join([q] + parts[1:])


def name_rec(parts):
    ps = [str(p) for p in parts]
    return {'parts': ps, 'lower': [p.lower() for p in ps], 'digits': [p.isdigit() for p in ps]}


def table_occurrences(root):
    """Identifier nodes in table position, found by reflection (independent of query_traversal)."""
    occ = []
    ctes = set()

    def slot(v):
        if type(v).__name__ == 'Identifier':
            occ.append(v)

    def visit(o, path):
        k = type(o).__name__
        if k in ('Exists', 'NotExists'):
            # .query is a redundant alias of args[0] that rewrites do not maintain: follow args only
            for a in (getattr(o, 'args', None) or []):
                walk_objects(a, visit, seen)
            return 'stop'
        if k == 'Select':
            for c in (getattr(o, 'cte', None) or []):
                ctes.add('.'.join(str(p) for p in c.name.parts).lower())
            slot(getattr(o, 'from_table', None))
        elif k == 'Join':
            slot(o.left)
            slot(o.right)
        elif k in ('Update', 'Delete'):
            pass
    seen = set()
    walk_objects(root, visit, seen)
    out = []
    for t in occ:
        ps = [str(p) for p in t.parts]
        if len(ps) == 1 and ps[0].lower() in ctes:
            continue
        if getattr(t, 'sub_select', None) is not None:
            continue
        out.append(name_rec(ps))
    return out


def column_occurrences(root):
    """Identifier nodes that are NOT in a table slot and have at least two parts (a trailing Star is written '*')."""
    tabs, cols = set(), []

    def visit(o, path):
        k = type(o).__name__
        if k == 'Select' and type(getattr(o, 'from_table', None)).__name__ == 'Identifier':
            tabs.add(id(o.from_table))
        elif k == 'Join':
            for side in (o.left, o.right):
                if type(side).__name__ == 'Identifier':
                    tabs.add(id(side))
        elif k in ('Insert', 'Update', 'Delete', 'CreateTable') and type(getattr(o, 'table', getattr(o, 'name', None))).__name__ == 'Identifier':
            tabs.add(id(getattr(o, 'table', getattr(o, 'name', None))))
        elif k == 'Identifier' and path and path[-1] != 'alias' and len(o.parts) > 1:
            cols.append(o)
    walk_objects(root, visit)
    out = []
    for c in cols:
        if id(c) in tabs:
            continue
        out.append(name_rec(['*' if type(p).__name__ == 'Star' else str(p) for p in c.parts]))
    return out[:12]


def catalog_rec(kw):
    ints, projects = [], ['mindsdb']
    for i in kw.get('integrations') or []:
        if isinstance(i, dict):
            (ints if i.get('type', 'data') == 'data' else projects).append(i['name'].lower())
        else:
            ints.append(i.lower())
    models = []
    pm = kw.get('predictor_metadata')
    dns = (kw.get('predictor_namespace') or 'mindsdb').lower()
    if isinstance(pm, list):
        for p in pm:
            ns = (p.get('integration_name') or dns).lower()
            models.append({'ns': ns, 'name': p['name'].lower()})
            if ns not in projects:
                projects.append(ns)
    elif isinstance(pm, dict):
        for name, p in pm.items():
            ns = (p.get('integration_name') or dns).lower()
            models.append({'ns': ns, 'name': name.split('.')[-1].lower()})
            if ns not in projects:
                projects.append(ns)
    return {'ints': ints, 'projects': projects, 'default': (kw.get('default_namespace') or '').lower(), 'models': models}


_COLS = {}


def _case(args):
    sql, kw = args
    from mindsdb_sql import parse_sql
    from mindsdb_sql.planner import plan_query
    from mindsdb_sql.exceptions import PlanningException
    try:
        tree = parse_sql(sql, 'mindsdb')
    except Exception as e:   # noqa
        return {'status': 'parse-error'}
    tables = table_occurrences(tree)
    tree._verif_cols = column_occurrences(tree)
    _COLS[sql] = tree._verif_cols
    cat = catalog_rec(kw)
    try:
        plan = plan_query(parse_sql(sql, 'mindsdb'), **copy.deepcopy(kw))
    except (PlanningException, NotImplementedError) as e:
        return {'status': 'refused', 'msg': str(e)[:100]}
    except Exception as e:   # noqa
        return {'status': 'internal:' + type(e).__name__}
    return _facts(sql, tables, cat, plan)


def _facts(sql, tables, cat, plan):
    fetches, applies = [], []

    def visit(o, path):
        k = type(o).__name__
        if k == 'FetchDataframeStep':
            q = getattr(o, 'query', None)
            fetches.append({'int': str(o.integration).lower(), 'tables': table_occurrences(q) if q is not None else [],
                            'cols': column_occurrences(q) if q is not None else [], 'sql': str(q)})
        elif k == 'DeleteStep':
            # the statement is executed by the integration of its target table; tables inside its WHERE travel with it
            tparts = [str(p) for p in o.table.parts]
            db = tparts[0].lower() if len(tparts) > 1 and tparts[0].lower() in cat['ints'] else cat['default']
            w = getattr(o, 'where', None)
            fetches.append({'int': db, 'tables': table_occurrences(w) if w is not None else [],
                            'cols': column_occurrences(w) if w is not None else [], 'sql': 'DELETE .. WHERE %s' % w})
        elif k in ('ApplyPredictorStep', 'ApplyPredictorRowStep', 'ApplyTimeseriesPredictorStep', 'GetPredictorColumns'):
            applies.append({'ns': str(o.namespace).lower(), 'name': name_rec(o.predictor.parts)})
    for s in plan.steps:
        walk_objects(s, visit)
    return {'status': 'ok', 'x': {'cat': cat, 'tables': tables, 'cols': _COLS.get(sql) or [],
                                  'fetches': [{'int': f['int'], 'tables': f['tables'], 'cols': f['cols']} for f in fetches],
                                  'applies': applies},
            'fetch_sql': [(f['int'], f['sql']) for f in fetches], 'applies': applies}


def _hist(args):
    """Routing facts of every plan of one call history (one planner object / shared catalog objects)."""
    sqls, catname, mode = args
    from mindsdb_sql import parse_sql
    from . import planhist
    kw = cat_of(catname)
    cat = catalog_rec(copy.deepcopy(kw))
    out = []
    for sql, st, plan in planhist.run_history(sqls, kw, mode):
        if plan is None:
            out.append({'status': st})
            continue
        t_ = parse_sql(sql, 'mindsdb')
        _COLS[sql] = column_occurrences(t_)
        out.append(_facts(sql, table_occurrences(t_), cat, plan))
    return out


def run(ctx):
    thorough = ctx.tier == 'thorough'
    cats = ['names', 'dicts', 'legacy-dict', 'no-default', 'default-int1', 'default-int2-dicts', 'implied-models-namespace'] if thorough else \
        ['names', 'dicts', 'legacy-dict', 'default-int1', 'implied-models-namespace']
    spellings = ['lower', 'upper', 'mixed']
    work, meta = [], []
    for pos, tmpl in POSITIONS.items():
        for tk, (t1, t2) in TARGETS.items():
            for sp in spellings:
                sql = tmpl.replace('{T2}', spell(t2, sp)).replace('{T}', spell(t1, sp))
                if sp != 'lower':
                    sql = sql.replace('int1.', 'INT1.' if sp == 'upper' else 'Int1.')
                for c in cats:
                    work.append((sql, cat_of(c)))
                    meta.append((pos, tk, sp, c, sql))
    for h in plancorpus.harvest():
        if h['cls'] in ('Select', 'Union'):
            work.append((h['sql'], h['kwargs']))
            meta.append(('tests', 'tests', 'as-written', 'tests', h['sql']))
    res = pmap(_case, work, chunksize=32)
    # call histories
    import random
    from . import planhist
    rng = random.Random(ctx.seed + 10)
    pool = sorted({m[4] for m in meta if m[3] == 'names'})
    hs = planhist.histories(rng, 200 if thorough else 40, pool)
    hwork = [(h, c, m) for h in hs for c in (('names', 'dicts', 'legacy-dict') if thorough else ('names', 'legacy-dict'))
             for m in ('planner', 'catalog')]
    for (h, c, m), out in zip(hwork, pmap(_hist, hwork, chunksize=4)):
        for pos, r in enumerate(out):
            work.append((h[pos], None))
            meta.append(('history-%s' % m, 'history', 'as-written', c, ' ;; '.join(h[:pos + 1])))
            res.append(r)
    traces, tmeta = [], []
    status = {}
    for m, r in zip(meta, res):
        status[r['status'].split(':')[0]] = status.get(r['status'].split(':')[0], 0) + 1
        if r['status'] == 'ok':
            traces.append(r['x'])
            tmeta.append((m, r))
    path = ctx.work / 'routing.json'
    dump_json(path, traces)
    tr = ctx.tlc('Routing', env={'VERIF_TRACES': path}, name='routing', timeout=3000)
    if not tr.ok:
        raise MachineryError('Routing failed: %s' % tr.errors[:3])
    ver = {v[1]: v[2] for v in find_prints(tr.out, 'ACC')}
    if len(ver) != len(traces):
        raise MachineryError('Routing judged %d of %d' % (len(ver), len(traces)))
    for i, ((pos, tk, sp, c, sql), r) in enumerate(tmeta):
        j = ver[i + 1]
        key = '%s|%s' % (c, sql)
        for flag, what in (('notfetched', 'a data table of the query is not fetched from the integration its name resolves to '
                                          '(or keeps its qualifier)'),
                           ('foreign', 'a fetch step ships a table that does not belong to its integration'),
                           ('colqualified', 'a column (or qualified star) is shipped to the integration with the integration qualifier still on it'),
                           ('modelshipped', 'a model name is sent to an integration'),
                           ('notapplied', 'a model reference has no apply-predictor step in its own project with its version')):
            if j[flag]:
                ctx.violation('%s:%s:%s:%s' % (flag, pos, tk, sp), what,
                              {'sql': sql, 'catalog': c, 'fetches': r['fetch_sql'], 'applies': r['applies'],
                               'detail': j[flag]}, pin=(key, flag))
    # ---- time-series joins (planned by another module): the data table of every form, in every letter case, is fetched from
    # its own integration; the facts are judged with the same Routing obligations, read directly (two tables, one model)
    from mindsdb_sql import parse_sql as _ps
    from mindsdb_sql.planner import plan_query as _pq
    ts_cat = dict(integrations=['int1', 'int2'], default_namespace='mindsdb',
                  predictor_metadata=[{'name': 'tsm', 'integration_name': 'mindsdb', 'timeseries': True, 'window': 2, 'order_by_column': 'd',
                                       'group_by_columns': []},
                                      {'name': 'tsg', 'integration_name': 'proj', 'timeseries': True, 'window': 2, 'order_by_column': 'd',
                                       'group_by_columns': ['g']}])
    n_ts = 0
    for form in ('select * from {T} as ta join {M} as tb where ta.d > latest',
                 'select * from {M} as tb join {T} as ta where ta.d > 5',
                 'insert into int2.out select * from (select * from {T}) as ta join {M} as tb where ta.d > latest',
                 'insert into int2.out select * from (select * from {T} where g = 1) as ta join {M} as tb where ta.d > latest limit 3',
                 'create table int2.out (select * from (select * from {T}) as ta join {M} as tb where ta.d > latest)',
                 'select * from (select * from {T}) as ta join {M} as tb where ta.d > latest'):
        for tsp in ('int1.t', 'INT1.t', 'Int1.t'):
            for msp in ('mindsdb.tsm', 'MINDSDB.tsm', 'proj.tsg', 'Proj.tsg'):
                sql_ = form.replace('{T}', tsp).replace('{M}', msp)
                try:
                    plan_ = _pq(_ps(sql_, 'mindsdb'), **copy.deepcopy(ts_cat))
                except Exception as e:   # noqa
                    if type(e).__name__ not in ('PlanningException', 'NotImplementedError'):
                        ctx.violation('planning-internal-error:ts:%s' % type(e).__name__, 'planning a time-series join failed internally', {'sql': sql_})
                    continue
                n_ts += 1
                fetches_ = []

                def _steps(lst):
                    for s_ in lst:
                        yield s_
                        if getattr(s_, 'steps', None):
                            yield from _steps(s_.steps)
                        sub_ = getattr(s_, 'step', None)
                        if sub_ is not None:
                            yield from _steps([sub_])
                for s_ in _steps(plan_.steps):
                    if type(s_).__name__ == 'FetchDataframeStep':
                        fetches_.append((str(s_.integration).lower(), str(s_.query).replace('\n', ' ')))
                applies_ = [(str(s_.namespace).lower(), [str(p_) for p_ in s_.predictor.parts]) for s_ in _steps(plan_.steps)
                            if type(s_).__name__ == 'ApplyTimeseriesPredictorStep']
                want_ns = msp.split('.')[0].lower()
                case_ = 'as-written' if tsp == 'int1.t' and msp.split('.')[0].islower() else 'other-case'
                if not fetches_ or any(i_ != 'int1' for i_, _q in fetches_):
                    ctx.violation('foreign:ts-join:%s' % case_, 'the data table of a time-series join is not fetched from its own integration',
                                  {'sql': sql_, 'fetches': fetches_})
                if any('int1.' in q_.lower() for _i, q_ in fetches_):
                    ctx.violation('colqualified:ts-join:%s' % case_, 'a fetch of a time-series join still carries the integration qualifier',
                                  {'sql': sql_, 'fetches': fetches_})
                if len(applies_) != 1 or applies_[0][0] != want_ns or applies_[0][1][-1].lower() != msp.split('.')[1]:
                    ctx.violation('notapplied:ts-join:%s' % case_, 'the time-series model is not applied exactly once in its own project',
                                  {'sql': sql_, 'applies': applies_})
    ctx.cov['time_series_join_routings'] = n_ts
    ctx.cov['traces_validated_against_impl'] = len(traces)
    ctx.cov['evaluations'] = len(work) + n_ts
    ctx.cov['planning_status'] = status
    ctx.sample({'sql': tmeta[0][0][4], 'catalog': tmeta[0][0][3], 'fetches': tmeta[0][1]['fetch_sql']})
    ctx.sample({'sql': tmeta[-1][0][4], 'fetches': tmeta[-1][1]['fetch_sql'], 'applies': tmeta[-1][1]['applies']})
    ctx.assumptions += ['integration names are compared case-insensitively (weakest reading of how the step names it)',
                        'DML target tables are not judged; table occurrences are found by a reflection walk']
    return ctx.finish(exhaustive=False)


def replay(ctx, path):
    rec = json.load(open(path))['replay']
    print(json.dumps(_case((rec['sql'], cat_of(rec.get('catalog', 'names')))), indent=1)[:3000])
    return 0
