"""Trace one public parse_sql call: driver events of the first Parser.parse run, nested runs
(suggestion re-parses), the independently lexed token list, and the outcome."""
import re

import sly.yacc as yacc
from sly.lex import LexError

from .slyrec import ParseRecorder, finish_events, ev
from .slyexport import dialect_classes

CB_OF = {'mindsdb': 'record_some', 'mysql': 'raise', 'sqlite': 'raise'}


def independent_tokens(sql, dialect):
    """Token list of the input after the documented strip, from a fresh lexer, not via parse_sql."""
    stripped = re.sub(r'[\s;]+$', '', sql)
    lx = dialect_classes(dialect)[0]()
    toks = []
    lexerr = None
    try:
        for t in lx.tokenize(stripped):
            toks.append(t)
    except LexError as e:
        lexerr = e
    except Exception as e:   # noqa  (lexer actions are code under test too)
        lexerr = e
    return stripped, toks, lexerr


def outcome_of(events, exc):
    if exc is not None:
        cls = type(exc).__name__
        if cls == 'ParsingException':
            return 'raised_parsing'
        if cls == 'LexError':
            return 'raised_lex'
        return 'raised_internal'
    if events and events[-1]['e'] == 'accept':
        return 'accepted'
    return 'none'


def trace_parse_sql(sql, dialect, keep_tokens=False):
    """Returns dict(trace=<record for SlyTrace>, result, exc, rec, toks, stripped, lexerr)."""
    from mindsdb_sql import parse_sql
    stripped, toks, lexerr = independent_tokens(sql, dialect)
    rec = ParseRecorder(keep_tokens)
    prev = yacc._verif_sink
    yacc._verif_sink = rec
    res, exc = None, None
    try:
        res = parse_sql(sql, dialect=dialect)
    except RecursionError as e:
        exc = e
    except Exception as e:   # noqa
        exc = e
    finally:
        yacc._verif_sink = prev
    first = rec.runs[0] if rec.runs else []
    # the exception belongs to the first run only if no nested run started and the run did not end
    ended = bool(first) and first[-1]['e'] in ('accept', 'return_none', 'bail')
    events = finish_events(first, exc if not ended else None)
    drv_outcome = outcome_of(events, exc if not ended else None)
    trace = {'input': [t.type for t in toks], 'cb': CB_OF[dialect], 'events': events, 'outcome': drv_outcome,
             'lexerr': 0 if lexerr is None else 1}
    return {'trace': trace, 'result': res, 'exc': exc, 'rec': rec, 'toks': toks, 'stripped': stripped,
            'lexerr': lexerr, 'driver_ended': ended, 'nested_runs': len(rec.runs) - 1}


def final_outcome(res, exc):
    """Outcome of the public call (C02 vocabulary)."""
    from mindsdb_sql.parser.ast.base import ASTNode
    if exc is not None:
        cls = type(exc).__name__
        if cls == 'ParsingException':
            return 'ParsingException'
        if cls == 'LexError':
            return 'LexError'
        return 'internal:' + cls
    if res is None:
        return 'returned_None'
    if isinstance(res, ASTNode):
        return 'tree'
    return 'non_tree:' + type(res).__name__
