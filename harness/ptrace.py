"""Trace one public parse_sql call: driver events of the first Parser.parse run, nested runs
(suggestion re-parses), the independently lexed token list, and the outcome."""
import re

import sly.yacc as yacc
from sly.lex import LexError

from .slyrec import ParseRecorder, finish_events, ev
from .slyexport import dialect_classes

CB_OF = {'mindsdb': 'record_some', 'mysql': 'raise', 'sqlite': 'raise'}


def independent_tokens(sql, dialect):
    """Token list of the input after the documented strip, from a fresh lexer, not via parse_sql."""
    stripped = re.sub(r'[\s;]+$', '', sql)
    lx = dialect_classes(dialect)[0]()
    toks = []
    lexerr = None
    try:
        for t in lx.tokenize(stripped):
            toks.append(t)
    except LexError as e:
        lexerr = e
    except Exception as e:   # noqa  (lexer actions are code under test too)
        lexerr = e
    return stripped, toks, lexerr


class CallLog:
    """Call-level events of one parse_sql call (ParseSql.tla vocabulary)."""
    cur = None

    def __init__(self):
        self.events = []
        self.loc_called = False
        self.raised_logged = False


def _install_wrappers():
    """Wrap ErrorHandling methods once (harness level, no repository change). Returns False if the
    reporter's internals cannot be observed (then the spec's OpaqueReport action is used)."""
    import mindsdb_sql
    EH = getattr(mindsdb_sql, 'ErrorHandling', None)
    if EH is None or getattr(EH, '_verif_wrapped', False):
        return EH is not None
    names = ('process', 'error_location', 'make_suggestion')
    if not all(callable(getattr(EH, n, None)) for n in names):
        return False
    o_process, o_loc, o_sugg = EH.process, EH.error_location, EH.make_suggestion

    def nested_failed(log):
        return bool(log.events) and log.events[-1]['e'] == 'nested' and log.events[-1].get('open')

    def process(self, error_info):
        log = CallLog.cur
        if log is None:
            return o_process(self, error_info)
        log.events.append({'e': 'process_begin', 'o': ''})
        try:
            r = o_process(self, error_info)
        except BaseException:
            if not log.raised_logged and not nested_failed(log):
                log.events.append({'e': 'reporter_raises', 'o': ''})
                log.raised_logged = True
            raise
        if not log.loc_called:
            log.events.append({'e': 'empty', 'o': ''})
        return r

    def error_location(self):
        log = CallLog.cur
        if log is None:
            return o_loc(self)
        log.loc_called = True
        try:
            r = o_loc(self)
        except BaseException:
            log.events.append({'e': 'reporter_raises', 'o': ''})
            log.raised_logged = True
            raise
        log.events.append({'e': 'loc_done', 'o': ''})
        return r

    def make_suggestion(self):
        log = CallLog.cur
        if log is None:
            return o_sugg(self)
        log.events.append({'e': 'sugg_begin', 'o': ''})
        try:
            r = o_sugg(self)
        except BaseException:
            if not nested_failed(log):
                log.events.append({'e': 'reporter_raises', 'o': ''})
                log.raised_logged = True
            raise
        log.events.append({'e': 'sugg_end', 'o': ''})
        return r
    EH.process, EH.error_location, EH.make_suggestion = process, error_location, make_suggestion
    EH._verif_wrapped = True
    return True


class CallRecorder(ParseRecorder):
    """Driver-event recorder that also feeds run begin/end into the call-level log."""

    def __init__(self, log, keep_tokens=False):
        super().__init__(keep_tokens)
        self.log = log

    def __call__(self, parser, name, *a):
        if name == 'begin':
            self._close_run()
            super().__call__(parser, name, *a)
            kind = 'first' if len(self.runs) == 1 else 'nested'
            self.log.events.append({'e': kind, 'o': '', 'open': True, 'run': len(self.runs) - 1})
            return
        super().__call__(parser, name, *a)
        if name in ('accept', 'return_none', 'bail'):
            self._close_run()

    def _close_run(self):
        for e in reversed(self.log.events):
            if e['e'] in ('first', 'nested'):
                if e.get('open'):
                    last = self.runs[e['run']][-1]['e'] if self.runs[e['run']] else ''
                    if last == 'accept':
                        e['o'] = 'accepted'
                        e['open'] = False
                    elif last in ('return_none', 'bail'):
                        e['o'] = 'none'
                        e['open'] = False
                break


def outcome_of(events, exc):
    if exc is not None:
        cls = type(exc).__name__
        if cls == 'ParsingException':
            return 'raised_parsing'
        if cls == 'LexError':
            return 'raised_lex'
        return 'raised_internal'
    if events and events[-1]['e'] == 'accept':
        return 'accepted'
    return 'none'


def trace_parse_sql(sql, dialect, keep_tokens=False):
    """Returns dict(trace=<record for SlyTrace>, result, exc, rec, toks, stripped, lexerr)."""
    from mindsdb_sql import parse_sql
    stripped, toks, lexerr = independent_tokens(sql, dialect)
    observed = _install_wrappers()
    log = CallLog()
    rec = CallRecorder(log, keep_tokens)
    CallLog.cur = log
    prev = yacc._verif_sink
    yacc._verif_sink = rec
    res, exc = None, None
    try:
        res = parse_sql(sql, dialect=dialect)
    except RecursionError as e:
        exc = e
    except Exception as e:   # noqa
        exc = e
    finally:
        yacc._verif_sink = prev
        CallLog.cur = None
    # close the call-level log: runs still open were ended by the exception that escaped
    for e in log.events:
        if e['e'] in ('first', 'nested') and e.get('open'):
            e['o'] = outcome_of(['x'], exc) if exc is not None else 'none'
            e['open'] = False
    cev = [{'e': e['e'], 'o': e['o']} for e in log.events]
    if not rec.runs:
        # the lexer failed before the driver pulled anything, or parse() was never reached
        cev.insert(0, {'e': 'first', 'o': outcome_of([], exc) if exc is not None else 'none'})
    if not observed:
        cev = [e for e in cev if e['e'] in ('first',)] + ([{'e': 'opaque_report', 'o': ''}] if cev and cev[0]['o'] == 'none' else [])
    fin = final_outcome(res, exc)
    cev.append({'e': 'final', 'o': 'internal' if fin.startswith('internal:') else ('non_tree' if fin.startswith('non_tree') else fin)})
    call_trace = {'cb': 'record' if CB_OF[dialect] != 'raise' else 'raise', 'events': cev}
    first = rec.runs[0] if rec.runs else []
    # the exception belongs to the first run only if no nested run started and the run did not end
    ended = bool(first) and first[-1]['e'] in ('accept', 'return_none', 'bail')
    events = finish_events(first, exc if not ended else None)
    drv_outcome = outcome_of(events, exc if not ended else None)
    trace = {'input': [t.type for t in toks], 'cb': CB_OF[dialect], 'events': events, 'outcome': drv_outcome,
             'lexerr': 0 if lexerr is None else 1}
    return {'trace': trace, 'call': call_trace, 'result': res, 'exc': exc, 'rec': rec, 'toks': toks, 'stripped': stripped,
            'lexerr': lexerr, 'driver_ended': ended, 'nested_runs': len(rec.runs) - 1}


def final_outcome(res, exc):
    """Outcome of the public call (C02 vocabulary)."""
    from mindsdb_sql.parser.ast.base import ASTNode
    if exc is not None:
        cls = type(exc).__name__
        if cls == 'ParsingException':
            return 'ParsingException'
        if cls == 'LexError':
            return 'LexError'
        return 'internal:' + cls
    if res is None:
        return 'returned_None'
    if isinstance(res, ASTNode):
        return 'tree'
    return 'non_tree:' + type(res).__name__
