"""Shared M1/M2 machinery: design runs of SlyDriver on toy grammars, trace validation of the real
sly driver (toy grammars and the three dialects) against SlyDriver with TLC."""
import itertools
import json
import re
from concurrent.futures import ThreadPoolExecutor

from .common import dump_json, MachineryError, NCPU
from .slyexport import export_tables, tla_safe, dialect_classes
from .corpus import pmap

CALLBACKS = ('raise', 'record_drain', 'record_only')

# grammar -> callbacks under which accept-soundness is expected to HOLD in the design model
EXPECT_SOUND = {
    'expr': {'raise', 'record_drain'},
    'list': {'raise', 'record_drain'},
    'raising': {'raise', 'record_drain'},
    'errlist': {'raise'},          # an `error` production defeats the drain
    'null': {'raise'},             # a nullable start symbol is accepted after the restart in state 0
}
# grammars without precedence/nonassoc: LALR language == grammar language, so completeness is checked too
COMPLETE = {'list', 'null'}


def toy_tables(name, callbacks, maxlen):
    from .toygrammars import TOYS
    t = tla_safe(export_tables(TOYS[name]))
    t['raising'] = [i + 1 for i, p in enumerate(t['prods']) if name == 'raising' and p['rhs'] == ['B']]
    t['callbacks'] = list(callbacks)
    t['maxlen'] = maxlen
    return t


def toy_design(ctx, maxlen):
    """SlyMC over every toy grammar: properties hold where expected, TLC finds the hazard elsewhere."""
    jobs = []
    for g, sound in EXPECT_SOUND.items():
        ok_cbs = [c for c in CALLBACKS if c in sound]
        jobs.append((g, ok_cbs, 'SlyMC_complete.cfg' if g in COMPLETE and g != 'raising' else 'SlyMC_safe.cfg', False))
        for c in CALLBACKS:
            if c not in sound:
                jobs.append((g, [c], 'SlyMC_hazard.cfg', True))
    results = []

    def run(job):
        g, cbs, cfg, expect = job
        path = ctx.work / ('toy_%s_%s.json' % (g, '_'.join(cbs)))
        dump_json(path, toy_tables(g, cbs, maxlen))
        r = ctx.tlc('SlyMC', cfg=cfg, workers=4, env={'VERIF_TABLES': path}, timeout=900,
                    name='mc_%s_%s' % (g, '_'.join(cbs)), expect_violation=expect)
        return job, r
    with ThreadPoolExecutor(4) as ex:
        for job, r in ex.map(run, jobs):
            g, cbs, cfg, expect = job
            if expect:
                if 'AcceptSound' not in r.violated:
                    raise MachineryError('spec sharpness lost: SlyMC did not find the accept-soundness hazard '
                                         'for grammar=%s callback=%s (violated=%s)' % (g, cbs, r.violated))
            else:
                if r.violated or not r.ok:
                    raise MachineryError('design property fails on toy grammar %s %s: %s %s'
                                         % (g, cbs, r.violated, r.errors[:3]))
            results.append({'grammar': g, 'callbacks': cbs, 'cfg': cfg, 'hazard_found': expect,
                            'states': r.distinct})
    return results


def _toy_trace(args):
    g, cbname, inp = args
    from .toygrammars import TOYS
    from .slyrec import Tok, traced_parse, finish_events
    from .ptrace import outcome_of
    p = TOYS[g]()
    p.cb_style = cbname
    toks = [Tok(t, i) for i, t in enumerate(inp)]
    res, exc, rec = traced_parse(p, iter(toks))
    events = finish_events(rec.runs[0], exc)
    return {'input': list(inp), 'cb': cbname, 'events': events, 'outcome': outcome_of(events, exc), 'lexerr': 0}


def toy_traces(ctx, maxlen):
    """Every input up to maxlen x 3 callbacks on real sly parsers, validated event by event."""
    from .toygrammars import TOYS
    total = 0
    per = {}
    for g in TOYS:
        tab = toy_tables(g, CALLBACKS, maxlen)
        terms = tab['terminals']
        cases = [(g, c, inp) for c in CALLBACKS for n in range(maxlen + 1)
                 for inp in itertools.product(terms, repeat=n)]
        traces = [_toy_trace(c) for c in cases]
        verdicts = validate_traces(ctx, tab, traces, 'toytrace_' + g, workers=8)
        bad = [i for i, v in enumerate(verdicts) if v is None or 'DRIFT' in v[1]]
        if bad:
            t = traces[bad[0]]
            ctx.note('model drift: real sly run on toy grammar %s is not a SlyDriver behaviour: input=%s cb=%s events=%s'
                     % (g, t['input'], t['cb'], [e['e'] for e in t['events']][:30]))
            ctx.cov['toy_drift'] = ctx.cov.get('toy_drift', 0) + len(bad)
            # the table-free Derivation verdict still decides soundness of what the driver accepted
            for i in bad:
                v = verdicts[i]
                t = traces[i]
                if v is not None and t['cb'] in EXPECT_SOUND[g] and (set(v[1]) - {'DRIFT'}) and \
                        (t['outcome'] == 'accepted' or 'ShiftAfterError' in v[1]):
                    ctx.violation('driver-unsound-on-toy-grammar:%s:%s' % (g, t['cb']),
                                  'the sly driver accepts / keeps shifting after an error on a grammar without error '
                                  'productions and with a non-nullable start symbol: %s' % sorted(set(v[1]) - {'DRIFT'}),
                                  {'grammar': g, 'callback': t['cb'], 'input': t['input'],
                                   'events': [e['e'] + ':' + e['ty'] for e in t['events']]})
        total += len(traces)
        kinds = {}
        for t in traces:
            for e in t['events']:
                kinds[e['e']] = kinds.get(e['e'], 0) + 1
        per[g] = {'traces': len(traces), 'event_kinds': kinds}
        ctx.sample({'toy_grammar': g, 'input': traces[-1]['input'], 'cb': traces[-1]['cb'],
                    'events': [e['e'] for e in traces[-1]['events']], 'outcome': traces[-1]['outcome']})
    if ctx.cov.get('toy_drift'):
        ctx.cov['traces_validated_against_impl'] += total
        return per
    need = {'pull', 'poplook', 'shift', 'reduce', 'accept', 'error_cb_begin', 'error_cb', 'cb_raise', 'action_raise',
            'return_none', 'reset_errcount', 'discard', 'bail', 'nuke', 'push_error', 'pop'}
    seen = set()
    for g in per:
        seen |= set(per[g]['event_kinds'])
    missing = need - seen
    if missing:
        raise MachineryError('vacuity: driver branches never exercised by the toy traces: %s' % sorted(missing))
    ctx.cov['traces_validated_against_impl'] += total
    return per


def validate_traces(ctx, tables, traces, name, workers=None, debug=False):
    """Run SlyTrace over a batch. Returns a list (same order) of None (rejected) or (phase, flags)."""
    if not traces:
        return []
    tpath = ctx.work / (name + '_tables.json')
    dump_json(tpath, tables)
    trpath = ctx.work / (name + '_traces.json')
    dump_json(trpath, traces)
    env = {'VERIF_TABLES': tpath, 'VERIF_TRACES': trpath}
    if debug:
        env['VERIF_DEBUG'] = '1'
    r = ctx.tlc('SlyTrace', cfg='SlyTrace.cfg', workers=workers or NCPU, env=env, timeout=3000, name=name)
    if not r.ok:
        raise MachineryError('SlyTrace job %s failed: %s' % (name, r.errors[:3]))
    out = [None] * len(traces)
    for item in r.prints('ACC'):
        tid, phase, flags = item[0], item[1], item[2]
        out[tid - 1] = (phase, flags, item[3] if len(item) > 3 else [])
    if debug:
        at = {}
        for item in r.prints('AT'):
            at[item[0]] = max(at.get(item[0], 0), item[1])
        return out, at
    missing = [i for i, v in enumerate(out) if v is None]
    if missing:
        # not a SlyDriver behaviour under the tables: fall back to the table-free Derivation replay
        sub = [traces[i] for i in missing]
        spath = ctx.work / (name + '_drift_traces.json')
        dump_json(spath, sub)
        r2 = ctx.tlc('Derivation', cfg='Derivation.cfg', workers=workers or NCPU,
                     env={'VERIF_TABLES': tpath, 'VERIF_TRACES': spath}, timeout=3000, name=name + '_deriv')
        if not r2.ok:
            raise MachineryError('Derivation job %s failed: %s' % (name, r2.errors[:3]))
        for item in r2.prints('ACC'):
            j = missing[item[0] - 1]
            out[j] = (traces[j]['outcome'], ['DRIFT'] + list(item[2]), [])
    return out


def dialect_tables(ctx, dialect):
    key = '_tables_' + dialect
    if not hasattr(ctx, key):
        setattr(ctx, key, tla_safe(export_tables(dialect_classes(dialect)[1])))
    return getattr(ctx, key)


def _trace_one(args):
    sql, dialect = args
    from .ptrace import trace_parse_sql, final_outcome
    r = trace_parse_sql(sql, dialect)
    exc = r['exc']
    return {'trace': r['trace'], 'call': r['call'], 'final': final_outcome(r['result'], exc),
            'msg': (str(exc)[:2000] if exc is not None else ''),
            'nested': r['nested_runs'], 'ended': r['driver_ended']}


def trace_corpus(cases, procs=None):
    """cases: list of (sql, dialect). Returns list of dicts from _trace_one (same order)."""
    return pmap(_trace_one, cases, procs=procs, chunksize=16)
