"""Render QuerySpace.tla records to SQL text over the catalog int1.t1(a,b), int2.t2(a,c), int1.t3(b,c)."""

SCHEMA = {('int1', 't1'): ['a', 'b'], ('int2', 't2'): ['a', 'c'], ('int1', 't3'): ['b', 'c'],
          ('int1', 't2'): ['a', 'c'], ('int3', 't1'): ['a', 'b'],
          ('int1', 't4'): ['x.y', 'p q']}

W = {
    'none': '', 't1b=1': 't1.b = 1', 't2c=1': 't2.c = 1', 't1b=1&t2c=2': 't1.b = 1 and t2.c = 2',
    'not-t2c=1': 'not t2.c = 1', 't1b=1|t2c=2': 't1.b = 1 or t2.c = 2', 't1b>1': 't1.b > 1', '1<t1b': '1 < t1.b',
    't1b-in': 't1.b in (1, 2)', 't1b-null': 't1.b is null', 't2c-notnull': 't2.c is not null',
    't1b-between': 't1.b between 1 and 2', 'not(t1b=1&t2c=1)': 'not (t1.b = 1 and t2.c = 1)', 't1a=1': 't1.a = 1',
    't2c<2': 't2.c < 2', '2>=t2c': '2 >= t2.c', 't3c=1': 't3.c = 1', 'b=1': 'b = 1', 'cc=1': 'cc.c = 1',
    'sb=1': 's.b = 1', 'c=1': 'c = 1',
}
KIND = {'inner': 'join', 'left': 'left join', 'right': 'right join', 'full': 'full join'}
ORDER = {'none': '', 't1b': ' order by t1.b', 't2c-desc': ' order by t2.c desc', 't1a,t2c': ' order by t1.a, t2.c',
         'b': ' order by b'}


def lim(l):
    s = ''
    if l[0] != 'none':
        s += ' limit ' + l[0]
    if l[1] != 'none':
        s += ' offset ' + l[1]
    return s


def where(w):
    return (' where ' + W[w]) if W[w] else ''


def render(c):
    sh = c['shape']
    if sh == 'join2':
        tg = {'star': '*', 'cols': 't1.a, t2.c', 'expr': 't1.b + t2.c as s, t1.a', 'count': 'count(*)',
              'groupcount': 't1.a, count(t2.c)', 'distinct-star': 'distinct *', 'distinct-cols': 'distinct t1.b, t2.c'}[c['tgt']]
        grp = ' group by t1.a' if c['tgt'] == 'groupcount' else ''
        order = ORDER[c['order']]
        if c['tgt'] in ('count', 'groupcount'):
            order = ' order by t1.a' if (c['tgt'] == 'groupcount' and c['order'] != 'none') else ''
        if c['tgt'] == 'distinct-cols' and c['order'] == 't1a,t2c':
            # DISTINCT over (t1.b, t2.c) ordered by a column that is not selected has no defined result (which of the equal rows
            # carries the sort key?): order by the selected columns instead
            order = ' order by t1.b, t2.c'
        return 'select %s from int1.t1 %s int2.t2 on t1.a = t2.a%s%s%s%s' % (tg, KIND[c['kind']], where(c['where']), grp,
                                                                           order, lim(c['lim']))
    if sh == 'join3':
        on3 = {'t3b=t1b': 't3.b = t1.b', 't3c=t2c': 't3.c = t2.c', 't3b=t2a': 't3.b = t2.a', 't3c=t2a': 't3.c = t2.a'}[c['on3']]
        on12 = {'t1a=t2a': 't1.a = t2.a', 't2c=t1a': 't2.c = t1.a', 't2c=t1b': 't2.c = t1.b'}[c.get('on12', 't1a=t2a')]
        return 'select * from int1.t1 %s int2.t2 on %s %s int1.t3 on %s%s' % (KIND[c['kind']], on12, KIND[c['kind2']],
                                                                            on3, where(c['where']))
    if sh == 'insub':
        inner = {'none': '', 'c=1': ' where c = 1', 'c-null': ' where c is null'}[c['inner']]
        w = (' and ' + W[c['where']]) if W[c['where']] else ''
        return 'select * from int1.t1 where a %sin (select a from int2.t2%s)%s%s%s' % ('not ' if c['neg'] else '', inner, w,
                                                                                  ORDER[c['order']], lim(c['lim']))
    if sh == 'setop':
        return 'select a from int1.t1%s %s select a from int2.t2%s' % (where(c['lw']), c['op'], where(c['rw']))
    if sh == 'setop3':
        return 'select a from int1.t1 %s select a from int2.t2 %s select b from int1.t3' % (c['op1'], c['op2'])
    if sh == 'cte':
        inner = ' where c = 1' if c['inner'] == 'c=1' else ''
        return 'with cc as (select * from int2.t2%s) select * from int1.t1 %s cc on t1.a = cc.a%s' % (
            inner, KIND[c['kind']], where(c['where']))
    if sh == 'api':
        tg = {'star': '*', 'cols': 'a, b', 'expr': 'b + a as s, a', 'count': 'count(*)', 'distinct-cols': 'distinct b'}[c['tgt']]
        w = {'none': '', 'b=1': ' where b = 1', 'b>1': ' where b > 1'}[c['where']]
        o = {'none': '', 'b': ' order by b', 'b-desc': ' order by b desc', 'b-a': ' order by b - a, a', '2': ' order by 2'}[c['order']]
        if c['tgt'] in ('count',):
            o = ''
        if c['tgt'] == 'distinct-cols' and c['order'] in ('b-a', '2'):
            o = ' order by b'
        return 'select %s from int3.t1%s%s%s' % (tg, w, o, lim(c['lim']))
    if sh == 'cteshadow':
        i1 = ' where b > 1' if c['inner'] == 'b>1' else ''
        i2 = ' where c > 1' if c['inner'] == 'b>1' else ''
        return {
            'join': 'with t2 as (select a, b from int1.t1%s) select t2.a, t2.b, x.c from t2 join int2.t2 as x on t2.a = x.a' % i1,
            'insub': 'with t2 as (select a, b from int1.t1%s) select * from t2 where a in (select a from int2.t2)' % i1,
            'own-source': 'with t2 as (select a, c from int2.t2%s) select t1.a, t2.c from int1.t1 join t2 on t1.a = t2.a' % i2,
            'join-t3': 'with t3 as (select a, c from int2.t2%s) select t3.a, y.b from t3 join int1.t3 as y on t3.c = y.c' % i2,
            'join-default': 'with t1 as (select a, c from int2.t2%s) select t1.a, y.b from t1 join int1.t1 as y on t1.a = y.a' % i2,
        }[c['use']]
    if sh == 'nested':
        inner = {'none': '', 'b=1': ' where b = 1', 'limit1': ' order by a limit 1'}[c['inner']]
        return 'select * from (select * from int1.t1%s) as s %s int2.t2 on s.a = t2.a%s' % (inner, KIND[c['kind']],
                                                                                         where(c['where']))
    if sh == 'implicit':
        w = {'none': '', 't1a=t2a': 't1.a = t2.a', 't1a=t2a&t2c=1': 't1.a = t2.a and t2.c = 1', 't1a=t2a|t2c=1': 't1.a = t2.a or t2.c = 1',
             'not-t1a=t2a': 'not t1.a = t2.a', 't1b=1&t1a=t2a': 't1.b = 1 and t1.a = t2.a', 't1b=1': 't1.b = 1',
             't2c=1|t1b=1': 't2.c = 1 or t1.b = 1', 't1a<t2a': 't1.a < t2.a', 't2a=t1a&not-t2c=1': 't2.a = t1.a and not t2.c = 1',
             '(t1a=t2a|t1b=1)&t2c=1': '(t1.a = t2.a or t1.b = 1) and t2.c = 1', 't1a=t2a&t1b=t2c': 't1.a = t2.a and t1.b = t2.c',
             't1a=t2c|t1b=t2a': 't1.a = t2.c or t1.b = t2.a'}[c['where']]
        tg = {'star': '*', 'cols': 't1.a, t2.c', 'count': 'count(*)'}[c['tgt']]
        if c['n'] == 3:
            w = (w + ' and ' if w else '') + 't3.b = t1.b'
            return 'select %s from int1.t1, int2.t2, int1.t3 where %s' % (tg, w)
        return 'select %s from int1.t1, int2.t2%s' % (tg, ' where ' + w if w else '')
    if sh == 'joinon':
        on = {'eq&t2c=1': 't1.a = t2.a and t2.c = 1', 'eq&not-t2c=1': 't1.a = t2.a and not (t2.c = 1)', 'not-eq': 'not t1.a = t2.a',
              'eq|t2c=1': 't1.a = t2.a or t2.c = 1', 'eq&t1b=1': 't1.a = t2.a and t1.b = 1', 't1a<t2a': 't1.a < t2.a',
              'eq&not(t2c=1|t1b=1)': 't1.a = t2.a and not (t2.c = 1 or t1.b = 1)', 'eq&1=t2c': 't1.a = t2.a and 1 = t2.c',
              'eq&t2c-null': 't1.a = t2.a and t2.c is null', 'eq&t2c-in': 't1.a = t2.a and t2.c in (1, 2)',
              'eq&t2c-between': 't1.a = t2.a and t2.c between 1 and 2', 'not(eq&t2c=1)': 'not (t1.a = t2.a and t2.c = 1)'}[c['on']]
        return 'select * from int1.t1 %s int2.t2 on %s%s' % (KIND[c['kind']], on, where(c['where']))
    if sh == 'scalar':
        return 'select * from int1.t1 where a %s (select %s(a) from int2.t2)' % (c['cmp'], c['f'])
    if sh == 'single':
        return render_single(c)
    raise ValueError(sh)


def render_single(c):
    b, al = c['body'], c['alias']
    # alias variants decide how the table and its columns are spelled
    if al == 'none':
        t1, q = 'int1.t1', ''
    elif al == 'table-alias':
        t1, q = 'int1.t1 as x', 'x.'
    elif al == 'alias-is-integration-name':
        t1, q = 'int1.t1 as int1', 'int1.'
    elif al == 'column-named-like-integration':
        t1, q = 'int1.t1', ''
    else:
        t1, q = 'int1.t1', 'int1.t1.'
    a, bb = q + 'a', q + 'b'
    extra = ', %s as int1' % a if al == 'column-named-like-integration' else ''
    if b == 'plain':
        return 'select %s, %s%s from %s' % (a, bb, extra, t1)
    if b == 'where':
        return 'select %s%s from %s where %s = 1 or %s is null' % (a, extra, t1, bb, bb)
    if b == 'join':
        return 'select %s, t2.c%s from %s join int1.t2 on %s = t2.a where t2.c = 1' % (a, extra, t1, a)
    if b == 'leftjoin':
        return 'select %s, t2.c%s from %s left join int1.t2 on %s = t2.a' % (a, extra, t1, a)
    if b == 'join3':
        return 'select %s, t2.c, t3.c from %s join int1.t2 on %s = t2.a left join int1.t3 on t3.b = %s' % (a, t1, a, bb)
    if b == 'group':
        return 'select %s, count(*)%s from %s group by %s' % (a, '', t1, a)
    if b == 'having':
        return 'select %s, count(*) from %s group by %s having count(*) > 1' % (a, t1, a)
    if b == 'order-limit':
        return 'select %s, %s from %s order by %s desc, %s limit 2' % (a, bb, t1, bb, a)
    if b == 'subquery-from':
        return 'select s.a from (select %s%s from %s where %s = 1) as s' % (a, extra, t1, bb)
    if b == 'subquery-where':
        return 'select %s from %s where %s in (select a from int1.t2 where c = 1)' % (a, t1, a)
    if b == 'union':
        return 'select %s from %s union select a from int1.t2' % (a, t1)
    if b == 'cte':
        return 'with cc as (select a, c from int1.t2) select %s, cc.c from %s join cc on %s = cc.a' % (a, t1, a)
    if b == 'cte-mixedcase':
        return 'with Cc as (select a, c from int1.t2) select %s, Cc.c from %s join Cc on %s = Cc.a' % (a, t1, a)
    if b == 'quoted-dotted-column':
        # a column whose (quoted) name contains a dot, and one with a blank: the names must come back as written
        t4 = t1.replace('int1.t1', 'int1.t4')
        return 'select `x.y`, `p q` from %s where `x.y` = 1 or `p q` is null' % t4
    if b == 'cte-chained':
        return ('with c1 as (select a, c from int1.t2), c2 as (select a, c from c1 where c > 0) '
                'select %s, c2.c from %s join c2 on %s = c2.a' % (a, t1, a))
    if b == 'cte-chained-only':
        return 'with c1 as (select %s, %s from %s), c2 as (select a from c1 where b = 1) select a from c2' % (a, bb, t1)
    if b == 'cte-only':
        return 'with Totals as (select %s, %s from %s) select a from Totals where b = 1' % (a, bb, t1)
    if b == 'cast':
        return 'select cast(%s as int), %s from %s where cast(%s as int) = 1' % (a, bb, t1, bb)
    if b == 'star-qualified':
        return 'select %s* from %s where %s = 1' % (q if q else 't1.', t1, bb)
    if b == 'distinct':
        return 'select distinct %s from %s' % (bb, t1)
    if b == 'expr':
        return 'select %s + %s as s, %s * 2 from %s where not %s = 2' % (a, bb, a, t1, bb)
    if b == 'exists':
        return 'select %s from %s where exists (select 1 from int1.t2 where c = 1)' % (a, t1)
    # correlated sub-queries: the inner query refers to the OUTER table through its name / alias
    o = q if q else 't1.'
    if b == 'exists-correlated':
        return 'select %s from %s where exists (select 1 from int1.t2 where t2.a = %sa)' % (a, t1, o)
    if b == 'in-correlated':
        return 'select %s from %s where %s in (select c from int1.t2 where t2.a = %sa)' % (a, t1, bb, o)
    if b == 'scalar-correlated':
        return 'select %s, (select count(*) from int1.t2 where t2.a = %sa) as n from %s' % (a, o, t1)
    if b == 'exists-correlated-shadow':
        # the inner table has a column of the same name as the outer reference's column
        return 'select %s from %s where exists (select 1 from int1.t3 where t3.b = %sb and t3.c = 1)' % (a, t1, o)
    if b == 'case-insensitive':
        return 'select %s from %s where %s = 1' % (a, t1.replace('int1.', 'INT1.'), bb)
    # selects WITHOUT a FROM clause that still read the integration (through scalar sub-selects / outer columns)
    # lists longer than a handful with the interesting (qualified) item late in them
    if b.startswith('long-in-list-late-column-'):
        n_ = int(b.rsplit('-', 1)[1])
        return 'select %s from %s where %s in (%s, %s)' % (a, t1, a, ', '.join(str(5 + i) for i in range(n_)), bb)
    if b == 'many-targets-late-qualified':
        return 'select %s, %s from %s where %s = 1' % (', '.join('%d as k%d' % (i, i) for i in range(30)), bb, t1, a)
    if b == 'fromless-scalars':
        return 'select (select max(%s) from %s) as m, (select count(*) from int1.t2) as n' % (a, t1)
    if b == 'union-fromless-branch':
        return 'select %s from %s union select (select max(a) from int1.t2)' % (a, t1)
    if b == 'fromless-subselect-outer-column':
        return 'select %s, (select %sb + 1) as b1 from %s' % (a, o, t1)
    raise ValueError(b)
