"""Design half of C09: PlanBuilder.tla, and its binding to plan_join.py (every model behaviour is turned into SQL and
planned by the real planner; the real plan's skeleton must be the model's)."""
from .common import MachineryError
from .tlaparse import find_prints
from . import plancorpus

KIND = {'FetchDataframeStep': 'Fetch', 'SubSelectStep': 'SubSelect', 'ApplyPredictorStep': 'Apply', 'JoinStep': 'Join',
        'MapReduceStep': 'MapReduce'}


def sql_of(seq):
    tabs = [('int1.t1', 't1'), ('int2.t2', 't2'), ('int1.t3', 't3'), ('int2.t4', 't4')]
    mods = [('mindsdb.pred', 'm1'), ('proj.pred2', 'm2'), ('mindsdb.pred', 'm3')]
    ti = mi = 0
    frm = ''
    using = []
    first = True
    for it in seq:
        if it == 'J':
            continue
        if it in ('T', 'Ts'):
            name, al = tabs[ti]
            ti += 1
            part = '%s as %s' % (name, al)
            if it == 'Ts':
                part += ' on %s.a = t1.a' % al
        else:
            name, al = mods[mi]
            mi += 1
            part = '%s as %s' % (name, al)
            if it == 'Mp':
                using.append('%s.partition_size = %d' % (al, 2 + mi))
        frm = part if first else frm + ' join ' + part
        first = False
    return 'select * from ' + frm + ((' using ' + ', '.join(using)) if using else '')


def design(ctx):
    from .c09 import _plan
    r = ctx.tlc('PlanBuilder', cfg='PlanBuilder_sound.cfg', name='planbuilder_sound')
    if r.violated or not r.ok:
        raise MachineryError('PlanBuilder: the algorithm is not sound even without partitions: %s' % r.violated)
    h = ctx.tlc('PlanBuilder', cfg='PlanBuilder_hazard.cfg', name='planbuilder_hazard', expect_violation=True)
    if 'ForwardOnly' not in h.violated:
        raise MachineryError('spec sharpness lost: PlanBuilder does not exhibit the open-partition counterexample')
    built = [(v[1], v[2], v[3], v[4]) for v in find_prints(r.out, 'BUILT')]
    drift = 0
    model_bad = 0
    for seq, steps, fwd, last in built:
        if not (fwd and last):
            model_bad += 1
        sql = sql_of(seq)
        res = _plan((sql, plancorpus.catalog('dicts'), None))
        if res['status'] != 'plan':
            continue
        real = res['skel']['steps']
        want = [(k, [list(x) for x in refs], [(sk, [list(x) for x in srefs]) for sk, srefs in sub]) for k, refs, sub in steps]
        got = [(KIND.get(s['kind'], s['kind']), s['refs'], [(KIND.get(x['kind'], x['kind']), x['refs']) for x in s['sub']])
               for s in real]
        # MapReduceStep.values is the same ref as its first sub-step's dataframe: compare as sets of refs
        def norm(sk):
            return [(k, sorted(map(tuple, refs)), [(a, sorted(map(tuple, b))) for a, b in sub]) for k, refs, sub in sk]
        if norm(want) != norm(got):
            drift += 1
            if drift <= 2:
                ctx.note('model drift: PlanBuilder %s gives %s but the planner emits %s for %r' % (seq, norm(want), norm(got), sql))
    return {'model_sequences': len(built), 'model_sequences_violating_invariants': model_bad,
            'planner_differs_from_model': drift, 'hazard_counterexample_found': True}
