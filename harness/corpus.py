"""Input corpora shared by the parser-side checks.

1. every string literal of the repository's own test modules (AST walk of tests/), classified per
   dialect by actually parsing it;
2. deterministic single-token mutations, truncations, garbage prefixes/suffixes/infixes and
   `stmt ; stmt` concatenations of the accepted ones (token-level, using the dialect's lexer);
3. hypothesis-free seeded random token soups and unicode text.
Everything is rebuilt from /repo's working tree on each run.
"""
import ast
import os
import random
import re
from multiprocessing import Pool

from .common import REPO, NCPU

DIALECTS = ('mindsdb', 'mysql', 'sqlite')


def test_strings():
    out = []
    seen = set()
    for root, _, files in os.walk(REPO / 'tests'):
        for fn in sorted(files):
            if not fn.endswith('.py'):
                continue
            try:
                tree = ast.parse(open(os.path.join(root, fn), encoding='utf8').read())
            except SyntaxError:
                continue
            for node in ast.walk(tree):
                if isinstance(node, ast.Constant) and isinstance(node.value, str):
                    s = node.value
                    if 3 < len(s) < 3000 and s not in seen and re.search(r'[A-Za-z]', s):
                        seen.add(s)
                        out.append(s)
    return out


def _classify(args):
    s, dialects = args
    from mindsdb_sql import parse_sql
    res = {}
    for d in dialects:
        try:
            t = parse_sql(s, dialect=d)
            res[d] = 'ok' if t is not None else 'none'
        except Exception as e:   # noqa
            res[d] = type(e).__name__
    return s, res


def pmap(fn, items, procs=None, chunksize=32):
    procs = procs or NCPU
    if len(items) < 64 or procs == 1:
        return [fn(x) for x in items]
    with Pool(procs) as pool:
        return pool.map(fn, items, chunksize=chunksize)


_cache = {}


def classified_test_strings(dialects=DIALECTS):
    key = tuple(dialects)
    if key not in _cache:
        strs = test_strings()
        _cache[key] = pmap(_classify, [(s, dialects) for s in strs])
    return _cache[key]


def accepted(dialect):
    return [s for s, r in classified_test_strings() if r.get(dialect) == 'ok']


def rejected(dialect):
    return [s for s, r in classified_test_strings() if r.get(dialect) != 'ok']


# ------------------------------------------------------------------ token-level mutation
def lex_spans(dialect, text):
    """[(type, start, end)] using the dialect's real lexer, or None if it cannot be lexed."""
    from .slyexport import dialect_classes
    lx = dialect_classes(dialect)[0]()
    try:
        return [(t.type, t.index, t.end) for t in lx.tokenize(text)]
    except Exception:   # noqa
        return None


def ref_strip_comments(text):
    """Reference treatment of comments, independent of the lexers' patterns: outside quotes, `--` runs to the end of the
    line and `/*` runs to the FIRST `*/`; an unterminated block comment is left alone.  Returns the text with each comment
    replaced by one blank."""
    out, i, n = [], 0, len(text)
    while i < n:
        ch = text[i]
        if ch in ('\'', '"', '`'):
            j = i + 1
            while j < n:
                if text[j] == '\\' and ch != '`' and j + 1 < n:
                    j += 2
                    continue
                if text[j] == ch:
                    if ch == "'" and j + 1 < n and text[j + 1] == "'":
                        j += 2
                        continue
                    break
                j += 1
            out.append(text[i:j + 1])
            i = j + 1
        elif text.startswith('--', i):
            j = text.find('\n', i)
            j = n if j < 0 else j
            out.append(' ')
            i = j
        elif text.startswith('/*', i):
            j = text.find('*/', i + 2)
            if j < 0:
                out.append(text[i:])
                i = n
            else:
                out.append(' ')
                i = j + 2
        else:
            out.append(ch)
            i += 1
    return ''.join(out)


GARBAGE = ['x y', ')', 'select', '1 2', ',', 'foo bar baz', '(', 'from']


_shorts = {}


def short_statements(dialect):
    """Complete statements of at most 2 tokens (BEGIN, COMMIT, ROLLBACK, SHOW TABLES ...) from the corpus."""
    if dialect not in _shorts:
        out = []
        for s in accepted(dialect):
            sp = lex_spans(dialect, re.sub(r'[\s;]+$', '', s))
            if sp and len(sp) <= 2 and s.strip() not in out:
                out.append(re.sub(r'[\s;]+$', '', s).strip())
        _shorts[dialect] = out[:12] or ['commit']
    return _shorts[dialect]


def mutations(dialect, text, rng, limit=12):
    """Deterministic (given rng) token-level mutants of an accepted statement."""
    text = re.sub(r'[\s;]+$', '', text)
    spans = lex_spans(dialect, text)
    if not spans:
        return []
    n = len(spans)
    out = []

    def piece(i):
        return text[spans[i][1]:spans[i][2]]

    def rebuild(toks):
        return ' '.join(toks)
    toks = [piece(i) for i in range(n)]
    kinds = []
    for i in range(n):
        kinds.append(('del', i))
        kinds.append(('dup', i))
        kinds.append(('swap', i))
        kinds.append(('rep', i))
        kinds.append(('ins', i))
    for k in range(1, n):
        kinds.append(('trunc', k))
    # near-valid shapes the property names: a sign applied to a non-number, a `key = value` pair removed
    special = []
    for i in range(n):
        if spans[i][0] in ('QUOTE_STRING', 'DQUOTE_STRING', 'NULL', 'TRUE', 'FALSE', 'ID', 'LPAREN', 'PARAMETER',
                           'VARIABLE', 'SYSTEM_VARIABLE'):
            special.append(('sign', i))
        if i + 2 < n and spans[i + 1][0] == 'EQUALS':
            special.append(('delkv', i))
    rng.shuffle(special)
    rng.shuffle(kinds)
    kinds = special[:max(2, limit // 4)] + kinds
    for kind, i in kinds[:limit]:
        t = list(toks)
        if kind == 'del':
            del t[i]
        elif kind == 'dup':
            t.insert(i, t[i])
        elif kind == 'swap':
            if i + 1 < n:
                t[i], t[i + 1] = t[i + 1], t[i]
        elif kind == 'rep':
            t[i] = toks[rng.randrange(n)]
        elif kind == 'ins':
            t.insert(i, rng.choice(GARBAGE + toks))
        elif kind == 'trunc':
            t = t[:i]
        elif kind == 'sign':
            t.insert(i, rng.choice(['-', '+', 'NOT', '- -']))
        elif kind == 'delkv':
            j = i + 3
            if j < n and spans[j][0] == 'COMMA':
                j += 1
            elif i > 0 and spans[i - 1][0] == 'COMMA':
                i -= 1
            del t[i:j]
        out.append((kind, rebuild(t)))
    g = rng.choice(GARBAGE)
    out.append(('prefix', g + ' ' + text))
    out.append(('prefix;', g + ' ; ' + text))
    out.append(('suffix', text + ' ' + g))
    out.append(('suffix;', text + ' ; ' + g))
    out.append(('concat', text + ' ; ' + text))
    out.append(('concat2', text + ' ' + text))
    # comments around garbage / statements (the lexers drop comments; nothing else may be dropped)
    out.append(('cmt-garbage', text + ' /* a */ ' + g + ' /* b */'))
    # comments whose body ends in stars / holds comment-like text: the comment ends at the FIRST */
    cb = rng.choice([' a **', '*', '**', ' a *** ', ' -- x ', ' /* nested ', " ' quote ", ' a */ b /* c '])
    out.append(('cmt-garbage-stars', text + ' /*' + cb + '*/ ' + g + ' /* b */'))
    out.append(('cmt-stmt-stars', text + ' /*' + cb + '*/ ; ' + rng.choice(short_statements(dialect)) + ' /* b **/'))
    out.append(('cmt-garbage-line', text + ' -- a\n' + g + ' -- b'))
    out.append(('cmt-prefix', '/* a */ ' + g + ' /* b */ ' + text))
    out.append(('cmt-ok', '/* a */ ' + ' /* m */ '.join(toks) + ' /* z */'))
    out.append(('cmt-stmt', text + ' /* a */ ' + rng.choice(short_statements(dialect)) + ' /* b */'))
    # a complete short statement injected in the middle / at either end
    sh = rng.choice(short_statements(dialect))
    k = rng.randrange(0, n + 1)
    out.append(('inject-stmt', rebuild(toks[:k] + [sh] + toks[k:])))
    k = rng.randrange(1, n) if n > 1 else 0
    out.append(('inject-stmt', rebuild(toks[:k] + [rng.choice(short_statements(dialect))] + toks[k:])))
    return out


UNI = ['é', 'ß', '日本', '​', '😀', '\x00', '\t', '\n', '\\', "'", '"', '`', '$', '@', '#', '?', '~', '^',
       '->', '->>', '||', ':=', '::', '{', '}', '[', ']', '%', '&', '|', '!', '<=>', '<>', '!=']


def soups(dialect, rng, n, vocab):
    """Random token soups over words taken from accepted statements plus odd characters."""
    out = []
    for _ in range(n):
        k = rng.randrange(1, 9)
        parts = []
        for _ in range(k):
            r = rng.random()
            if r < 0.75 and vocab:
                parts.append(rng.choice(vocab))
            else:
                parts.append(rng.choice(UNI))
        out.append(rng.choice([' ', '', '\n']).join(parts) if rng.random() < 0.2 else ' '.join(parts))
    return out


def vocabulary(dialect, texts, cap=400):
    seen = []
    s = set()
    for t in texts:
        sp = lex_spans(dialect, t)
        if not sp:
            continue
        for ty, a, b in sp:
            w = t[a:b]
            if w not in s:
                s.add(w)
                seen.append(w)
        if len(seen) > cap:
            break
    return seen
