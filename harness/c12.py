"""C12 -- prepared statements bind placeholders in textual order, like inline literals.

design   : Prepared.tla -- the prepare/info/execute protocol; TLC enumerates every history of MaxLen actions with
           the set of outcomes the contract allows after each action.
order    : Traversal.tla's textual order restricted to Parameter nodes (ParamJudge, by TLC) against the order in
           which the library numbers the placeholders (get_query_params).
replay   : every history is driven through a real QueryPlanner for statements with `?` in every position the
           property lists; after each action the observed outcome must be in the allowed set; an "inlined-plan"
           must equal the plan of the same text with v_i written in place of the i-th `?` (compared through the
           generic plan projection).
"""
import copy
import json
import random
import re

from .common import MachineryError, dump_json
from .corpus import pmap
from .tlaparse import find_prints

INTEGRATIONS = ['int1', 'int2']
STATEMENTS = [
    "select ?, a from int1.t where b = ?",
    # placeholders written with an alias / in parentheses: the bound value stands exactly where the placeholder stood
    "select ? as x, (?) as y, a from int1.t where (?) = b",
    "select a from int1.t where b = ? and c in (?, ?) and d between ? and ?",
    "select a from int1.t where c in (1, ?) and b = ?",
    "select * from int1.t1 join int1.t2 on t1.a = t2.a and t2.b = ? where t1.c = ?",
    "select * from int1.t1 join int2.t2 on t1.a = t2.a where t1.c = ? and t2.d = ?",
    "select s1.a from (select a from int1.t1 where x = ?) as s1 join (select a from int2.t2 where y = ?) as s2 on s1.a = s2.a",
    "select case ? when 1 then ? else ? end from int1.t where a = ?",
    "select case when a = ? then ? else ? end from int1.t",
    "select substring(a from ?) from int1.t where b = ?",
    "select f(?, g(?)) from int1.t where h(?) = 1",
    "select a from int1.t where b = ? group by a having count(*) > ? order by a limit 5",
    "select count(*) from int1.t where b = ? having count(*) > ?",
    "select a from int1.t where b in (select c from int2.t2 where d = ?) and e = ?",
    "select a from int1.t where e = ? and b in (select c from int2.t2 where d = ?)",
    "with c1 as (select a from int1.t1 where x = ?) select * from c1 where a = ?",
    "select a from int1.t where b = ? union select c from int2.t2 where d = ?",
    "insert into int1.t (a, b, c) values (?, ?, ?)",
    "insert into int1.t (a, b) values (?, 1), (2, ?)",
    "insert into int1.t (a) select b from int2.t2 where c = ? and d = ?",
    "update int1.t set a = ?, b = ? where c = ?",
    "update int1.t set a = ? where c = ? and d = ?",
    "delete from int1.t where a = ? and b = ?",
    "select a, ? from int1.t where b = ? order by c",
    "select cast(? as int), a from int1.t where b = ?",
    "select a from int1.t where not b = ? or c = ?",
    "select sum(a) over (partition by ?, b order by c) from int1.t where d = ?",
    "select a from int1.t where b = ?",
    # a placeholder on the LEFT of a comparison whose right side holds another one
    "select a from int1.t where ? = b + ?",
    "select a from int1.t where ? != f(?, c) and d = ?",
    "select a from int1.t where ? <> case when b = ? then 1 else 2 end",
    "select a from int1.t where ? = (select max(c) from int2.t2 where d = ?)",
    "select a from int1.t where ? < b + ? and ? >= c - ?",
    "select a from int1.t where not ? = b * ? or ? in (c, ?)",
    "select a from int1.t where ? between ? and b + ?",
    "select ? + ?, a from int1.t where ? like c",
    "delete from int1.t where ? = b + ?",
]


ALL_SLOT_EXPRS = [
    '? + ? * ?', 'f(?, ?, ?)', 'f(g(?, ?), h(?), ?)', '? between ? and ?', '? in (?, ?, ?)', '? not in (?, ?)',
    'case when a = ? then ? when a = ? then ? else ? end', 'case ? when ? then ? when ? then ? else ? end',
    'case when ? then ? when ? then ? when ? then ? end', 'case when a = ? then case when b = ? then ? else ? end else ? end',
    'cast(? as int) + ?', '? is null or ? is not null', 'coalesce(?, case when ? = ? then ? end, ?)', '-? + ?',
    '(? = ?) and not (? > ?) or ? < ?', '? like ? or ? not like ?', 'a -> ? ->> ?', 'not (? in (?, ?) and ? between ? and ?)',
    'count(distinct ?) + sum(?)', 'sum(?) over (partition by ?, ? order by ?, ?)', '(?, ?) = (?, ?)', '? || ? || ?',
]
# placeholders in SEVERAL clauses of one select at a time (every pair of clauses, and all of them)
def multi_clause_statements():
    import itertools
    parts = [('targets', 'select substr(a, 1, {P}) as s, c'), ('where', ' where b = {P}'), ('group', ' group by c, substr(a, 1, {P})'),
             ('having', ' having count(*) > {P}'), ('order', ' order by c, substr(a, 2, {P})'), ('limit', ' limit 5')]
    out = []
    names = ['targets', 'where', 'group', 'having', 'order']
    for r in (2, 3, 5):
        for combo in itertools.combinations(names, r):
            sql = ''
            for n_, txt in parts:
                if n_ == 'targets':
                    sql += txt.replace('{P}', '?' if n_ in combo else '1') + ' from int1.t'
                elif n_ == 'limit':
                    sql += txt
                else:
                    sql += txt.replace('{P}', '?' if n_ in combo else '1')
            out.append(sql)
            out.append('select * from (%s) as q where q.c = ?' % sql)
    return out


def _container_variants(tree):
    """Hand-built spellings of the same tree: every list a tuple; equal rows of an INSERT the SAME list object."""
    from .project import walk_objects
    out = []
    t1 = copy.deepcopy(tree)
    changed = [0]

    def tup(o, path):
        d = getattr(o, '__dict__', None)
        if d and type(o).__module__.startswith('mindsdb_sql'):
            for k, v in list(d.items()):
                if isinstance(v, list) and v and k in ('values', 'items', 'group_by', 'order_by', 'partition', 'args'):
                    if k == 'values':
                        d[k] = [tuple(r) if isinstance(r, list) else r for r in v]
                    else:
                        d[k] = tuple(v)
                    changed[0] += 1
    walk_objects(t1, tup)
    if changed[0]:
        out.append(('tuples', t1))
    if type(tree).__name__ == 'Insert' and tree.values and len(tree.values) > 1:
        rows = tree.values
        if all(len(r) == len(rows[0]) and all(type(x).__name__ == 'Parameter' for x in r) for r in rows):
            t2 = copy.deepcopy(tree)
            t2.values = [[t2.values[0][0]] * len(rows[0])] * len(rows)
            out.append(('shared-rows', t2))
    return out


def _handbuilt(sql):
    """prepare / info / execute on hand-built spellings of the tree of `sql`; the plan must be the inlined text's plan."""
    from mindsdb_sql import parse_sql
    from mindsdb_sql.exceptions import PlanningException
    from .project import plan_proj, jdump
    res = []
    n = count_holes(sql)
    vals = list(range(101, 101 + n))
    want = _plan_of_text(inline(sql, vals))
    for name, tree in _container_variants(parse_sql(sql, 'mindsdb')):
        try:
            pl = _planner()
            _drain(pl.prepare_steps(tree))
            cnt = len(pl.get_statement_info()['parameters'])
            steps = list(pl.execute_steps(list(vals)) or [])
            got = 'plan:' + jdump({'steps': plan_proj(type('P', (), {'steps': steps})())['steps']})
            res.append((name, cnt, 'same' if got == want else 'other-plan', got[:300], want[:300]))
        except (PlanningException, NotImplementedError) as e:
            res.append((name, -1, 'refused:%s' % type(e).__name__, str(e)[:100], ''))
        except Exception as e:   # noqa
            res.append((name, -1, 'internal:%s' % type(e).__name__, str(e)[:100], ''))
    return res


ALL_SLOT_CLAUSES = [
    'select {E} from int1.t', 'select {E} as x, {E} as y from int1.t where b = ?', 'select a from int1.t where {E}',
    'select a from int1.t where ? = ({E}) and c = ?', 'select a from int1.t group by a having {E}',
    'select a from int1.t order by {E}', 'select a from int1.t group by {E}',
    'select * from int1.t1 join int2.t2 on {E}', 'select * from int1.t1 join int1.t2 on {E} where {E}',
    'update int1.t set a = {E} where c = ?', 'delete from int1.t where {E}',
    'insert into int1.t (a, b) values ({E}, ?), (?, {E})', 'select a from int1.t where b in (select c from int2.t2 where {E}) and {E}',
    'update int1.t on a, b from (select * from int2.t2 where {E})', 'update int1.t set a = ? from (select * from int2.t2 where {E}) as s where s.a = ?',
    'create table int1.t9 (select a from int2.t2 where {E})', 'insert into int1.t (a) select a from int2.t2 where {E}',
]
# sizes beyond a handful: long VALUES lists, long IN lists, many targets (a fast path may start at a threshold)
BIG_STATEMENTS = [
    'insert into int1.t (a, b) values ' + ', '.join(['(?, ?)'] * 130),
    'insert into int1.t (a, b, c) values ' + ', '.join(['(?, 1, ?)'] * 70),
    'select a from int1.t where b in (' + ', '.join(['?'] * 150) + ') and c = ?',
    'select a from int1.t where b in (' + ', '.join(['1'] * 70 + ['?'] + ['2'] * 70 + ['?']) + ') and c = ?',
    'select ' + ', '.join(['?'] * 120) + ' from int1.t where c = ?',
    'select a from int1.t where ' + ' and '.join('c%d = ?' % i for i in range(50)),
    'update int1.t set ' + ', '.join('c%d = 1' % i for i in range(80)) + ' where a = ? and b = ?',
]


def inline(sql, vals):
    it = iter(vals)
    return re.sub(r'\?', lambda m: str(next(it)), sql)


def count_holes(sql):
    return sql.count('?')


def _planner():
    from mindsdb_sql.planner.query_planner import QueryPlanner
    return QueryPlanner(integrations=list(INTEGRATIONS), default_namespace='mindsdb')


def _drain(gen):
    if gen is None:
        return
    for step in gen:
        try:
            step.set_result(None)
        except Exception:   # noqa
            pass


def _plan_of_text(sql):
    from mindsdb_sql import parse_sql
    from mindsdb_sql.planner import plan_query
    from .project import plan_proj, jdump
    try:
        p = plan_query(parse_sql(sql, 'mindsdb'), integrations=list(INTEGRATIONS), default_namespace='mindsdb')
        return 'plan:' + jdump(plan_proj(p))
    except Exception as e:   # noqa
        return 'exc:' + type(e).__name__


def _history(args):
    """Drive one history for one pair of statements. Returns list of observations (one per action)."""
    stA, stB, hist = args
    from mindsdb_sql import parse_sql
    from mindsdb_sql.exceptions import PlanningException
    from .project import plan_proj, jdump
    pl = _planner()
    cur = None
    obs = []
    counter = [100]
    for act, allowed, _st in hist:
        try:
            if act in ('prepareA', 'prepareB'):
                cur = stA if act == 'prepareA' else stB
                _drain(pl.prepare_steps(parse_sql(cur, 'mindsdb')))
                obs.append(('ok', None))
            elif act == 'info':
                info = pl.get_statement_info()
                n = len(info['parameters'])
                want = count_holes(cur) if cur else -1
                obs.append(('n' if n == want else 'wrong-count:%d-instead-of-%d' % (n, want), None))
            else:
                rel = act[5:]
                n = count_holes(cur) if cur else 1
                k = n if rel == 'exact' else (n - 1 if rel == 'fewer' else n + 1)
                if k < 0:
                    k = 0
                vals = []
                for _ in range(k):
                    counter[0] += 1
                    vals.append(counter[0])
                steps = list(pl.execute_steps(vals) or [])
                got = 'plan:' + jdump({'steps': plan_proj(type('P', (), {'steps': steps})())['steps']})
                if rel == 'exact' and cur is not None:
                    want = _plan_of_text(inline(cur, vals))
                    obs.append(('inlined-plan' if got == want else 'other-plan', {'vals': vals, 'got': got[:400], 'want': want[:400]}))
                else:
                    obs.append(('unexpected-plan', {'vals': vals}))
        except PlanningException as e:
            obs.append(('PlanningException', str(e)[:100]))
        except NotImplementedError as e:
            obs.append(('NotImplementedError', str(e)[:100]))
        except Exception as e:   # noqa
            obs.append(('internal:%s' % type(e).__name__, str(e)[:100]))
    return obs


def run(ctx):
    thorough = ctx.tier == 'thorough'
    rng = random.Random(ctx.seed + 12)
    r = ctx.tlc('Prepared', cfg='Prepared4.cfg' if thorough else 'Prepared3.cfg', name='prepared')
    if r.violated or not r.ok:
        raise MachineryError('Prepared: %s %s' % (r.violated, r.errors[:2]))
    hists = [[(a, set(al), st) for a, al, st in v[1]] for v in find_prints(r.out, 'HIST')]
    if not hists:
        raise MachineryError('Prepared emitted no histories')
    ctx.cov['histories'] = len(hists)

    # ---- numbering order of placeholders, judged by TLC against the textual order of Traversal.tla
    from mindsdb_sql import parse_sql
    from mindsdb_sql.planner.utils import get_query_params
    from .c13 import Projector, parse_schema
    dump_json(ctx.work / 'empty.json', [{'kind': 'visit', 't': {'k': 'Identifier', 'id': 1, 'ch': []},
                                         'got': [{'id': 1, 'table': False, 'target': False}]}])
    s0 = ctx.tlc('TraversalTrace', env={'VERIF_TRACES': ctx.work / 'empty.json'}, workers=1, name='schema')
    schema = parse_schema(s0.out)
    # boolean condition shapes from ExprPrec.tla (every AND / OR / NOT tree up to 3 operators, minimal and full
    # parentheses) with a placeholder comparison at every leaf, in every clause that takes a condition
    shapes = set()
    for cfg in ('ExprPrec_all2.cfg', 'ExprPrec_full2.cfg', 'ExprPrec_all3.cfg' if thorough else 'ExprPrec_reps3.cfg'):
        rr = ctx.tlc('ExprPrec', cfg=cfg, name='c12_' + cfg[:-4], timeout=3000)
        if rr.violated or not rr.ok:
            raise MachineryError('ExprPrec %s: %s' % (cfg, rr.violated))
        for v in find_prints(rr.out, 'CASE'):
            toks = list(v[1])
            if set(toks) <= {'L', 'AND', 'OR', 'NOT', '(', ')'} and toks.count('L') >= 2:
                shapes.add(tuple(toks))
    gen = []
    for toks in sorted(shapes):
        k = 0
        parts = []
        for t in toks:
            if t == 'L':
                k += 1
                parts.append('c%d = ?' % k)
            else:
                parts.append(t)
        cond = ' '.join(parts)
        for tmpl in ('select a from int1.t where %s', 'select a from int1.t group by a having %s', 'delete from int1.t where %s',
                     'update int1.t set a = 1 where %s', 'select * from int1.t1 join int1.t2 on %s',
                     'select a from int1.t where z = ? and (%s) and y = ?'):
            gen.append(tmpl % cond)
    ctx.cov['boolean_shapes'] = len(shapes)
    # a placeholder in EVERY slot of every expression form, in every clause that takes an expression
    n_all = 0
    for e in ALL_SLOT_EXPRS:
        for tmpl in ALL_SLOT_CLAUSES:
            sql = tmpl.replace('{E}', e)
            try:
                parse_sql(sql, 'mindsdb')
            except Exception:   # noqa
                continue
            gen.append(sql)
            n_all += 1
    ctx.cov['all_slot_statements'] = n_all
    mc = multi_clause_statements() + BIG_STATEMENTS
    gen += mc
    ctx.cov['multi_clause_statements'] = len(mc)
    if n_all < len(ALL_SLOT_EXPRS) * 3:
        raise MachineryError('most all-slot statements are rejected by the parser (%d accepted)' % n_all)
    numbering = STATEMENTS + gen
    traces = []
    for sql in numbering:
        tree = parse_sql(sql, 'mindsdb')
        pj = Projector(schema)
        t = pj.tree(tree)
        got = [pj.idmap.get(id(p), -1) for p in get_query_params(tree)]
        traces.append({'kind': 'params', 't': t, 'got': got})
    path = ctx.work / 'paramtraces.json'
    dump_json(path, traces)
    tr = ctx.tlc('TraversalTrace', env={'VERIF_TRACES': path}, name='param_order')
    ver = {v[1]: v[2] for v in find_prints(tr.out, 'ACC')}
    if len(ver) != len(traces):
        raise MachineryError('param order: judged %d of %d' % (len(ver), len(traces)))
    order_bad = {}
    for i, sql in enumerate(numbering):
        kind, j, want = ver[i + 1]
        if len(want) != count_holes(sql):
            raise MachineryError('spec/harness disagreement on the number of placeholders in %r (projection misses a '
                                 'slot?): spec %d text %d' % (sql, len(want), count_holes(sql)))
        coords = []
        for pk, slot in j['missing']:
            coords.append('placeholder-not-found:%s.%s' % (pk, slot))
        for k_, s1, s2 in j['order']:
            coords.append('order:%s.%s-after-%s' % (k_, s1, s2))
        if j['twice']:
            coords.append('placeholder-numbered-twice')
        order_bad[sql] = sorted(set(coords))
        for c in order_bad[sql]:
            ctx.violation('numbering:' + c, 'placeholders are not numbered in textual order: %s' % c,
                          {'sql': sql, 'library_order_ids': traces[i]['got'], 'textual_order_ids': want})

    # ---- histories on real planners
    pairs = [(s, STATEMENTS[(i + 7) % len(STATEMENTS)]) for i, s in enumerate(STATEMENTS)]
    work = []
    for (a, b) in pairs:
        hs = hists if thorough else rng.sample(hists, min(len(hists), 60))
        for h in hs:
            work.append((a, b, [(act, sorted(al), st) for act, al, st in h]))
    res = pmap(_history, work, chunksize=32)
    n_act = 0
    for (a, b, h), obs in zip(work, res):
        cur = None
        for (act, allowed, st), (o, detail) in zip(h, obs):
            n_act += 1
            if act == 'prepareA':
                cur = a
            elif act == 'prepareB':
                cur = b
            if act.startswith('prepare') and o == 'PlanningException':
                break       # shape refused by the prepare step: nothing further is promised
            if o in allowed:
                continue
            if o == 'NotImplementedError':
                continue
            hist_s = [x[0] for x in h]
            if o == 'other-plan':
                # wrong binding: attribute it to the numbering defects of this statement when there are any
                cs = order_bad.get(cur) or []
                sig = 'binding:' + ('+'.join(cs) if cs else 'values-not-in-textual-order')
                ctx.violation(sig, 'executing with values v1..vn does not plan like the text with vi in place of the '
                                   'i-th placeholder', {'statement': cur, 'history': hist_s, 'detail': detail})
            elif o.startswith('wrong-count'):
                cs = order_bad.get(cur) or []
                ctx.violation('parameter-count:' + ('+'.join(cs) if cs else o.split(':')[0]),
                              'prepare reports %s parameters' % o, {'statement': cur, 'history': hist_s})
            else:
                ctx.violation('protocol:%s-when-%s:%s' % (act, st, o),
                              'outcome %s is not among the outcomes the protocol allows %s' % (o, sorted(allowed)),
                              {'statement': cur, 'history': hist_s, 'detail': detail})
    # ---- hand-built spellings of the trees (tuples instead of lists, one list object used for several rows)
    hb_sql = [q for q in STATEMENTS if not order_bad.get(q)] + [
        'insert into int1.t (a, b) values (?, ?), (?, ?), (?, ?)', 'insert into int1.t (a) values (?), (?)',
        'select a from int1.t where b in (?, ?, ?) group by a, c having count(*) > ? order by a, c'] + BIG_STATEMENTS[:4]
    n_hb = 0
    for sql_, rs in zip(hb_sql, pmap(_handbuilt, hb_sql, chunksize=4)):
        for name, cnt, st, got, want in rs:
            n_hb += 1
            if st.startswith('refused'):
                continue
            if st.startswith('internal'):
                ctx.violation('handbuilt:%s:%s' % (name, st), 'prepare/execute of a hand-built tree (%s) ends in an internal error: %s' % (name, got),
                              {'statement': sql_, 'variant': name})
            elif cnt != count_holes(sql_):
                ctx.violation('handbuilt:%s:parameter-count' % name, 'prepare reports %d parameters for %d placeholders' % (cnt, count_holes(sql_)),
                              {'statement': sql_, 'variant': name})
            elif st != 'same':
                ctx.violation('handbuilt:%s:binding' % name, 'executing a hand-built tree with v1..vn does not plan like the text with vi in '
                              'place of the i-th placeholder', {'statement': sql_, 'variant': name, 'got': got, 'want': want})
    ctx.cov['handbuilt_tree_runs'] = n_hb
    ctx.cov['traces_validated_against_impl'] = len(work) + len(traces)
    ctx.cov['evaluations'] = n_act
    ctx.cov['statements'] = len(STATEMENTS)
    ctx.sample({'statement': work[0][0], 'history': [x[0] for x in work[0][2]], 'observed': [o for o, _ in res[0]]})
    ctx.sample({'statement': STATEMENTS[19], 'textual_order_ids': ver[20][2], 'library_order_ids': traces[19]['got']})
    ctx.assumptions += ['values are pairwise distinct integers; the inlined reference text is built by replacing the '
                        'i-th `?` of the statement text',
                        'a repeated execute may be refused or re-planned (both accepted), an internal error is not']
    return ctx.finish(exhaustive=thorough)


def replay(ctx, path):
    rec = json.load(open(path))['replay']
    print(json.dumps(rec, indent=1)[:3000])
    return 0
