"""C16 -- queries embedded in MindsDB commands are stored verbatim.

design  : RawQueryMC -- the transcription of tokens_to_string stores every layout verbatim as long as token values
          equal their lexemes, and TLC exhibits the loss as soon as the lexer rewrites a value (the known defect).
replay  : RawGen enumerates inner token sequences (strings incl. '' / doubled quote / backslash quote / newline
          inside, variables, numbers, nested parentheses) x separators (blanks, newlines, comments); each inner text
          is embedded in the 11 commands; the stored text is judged by RawQueryTrace: its lexemes must be the
          lexemes the user wrote (binding: it must also equal the transcription). Valid inner SELECTs must parse to
          the same tree from the stored text.
"""
import json

from .common import MachineryError, dump_json
from .corpus import pmap
from .tlaparse import find_prints

LEX = {'word': 'abc', 'star': '*', 'decimal': '1.50', 'int0': '007', 'estr': "''", 'str': "'x y'", 'dstr': "'it''s'",
       'bstr': "'a\\'b'", 'dq': '"d q"', 'var': '@v', 'sysvar': '@@sv', 'qvar': '@`a b`', 'paren': '( abc , ( 1 ) )',
       'eq': '=', 'comma': ',', 'param': '?', 'nlstr': "'l1\n  l2'",
       'dq2sq': '"rock \'\'n\'\' roll"', 'semistr': "'s1;s2'", 'semibq': '`a;b`'}
SEP = {'sp': ' ', 'sp2': '   ', 'nl': '\n', 'nlind': '\n    ', 'blockcmt': ' /* c */ ', 'linecmt': ' -- c\n', 'nl2': '\n\n', 'none': ''}
TEMPLATES = [
    ('create_model', 'CREATE MODEL m FROM db (', ') PREDICT y', lambda q: q.query_str),
    ('create_predictor', 'CREATE PREDICTOR m FROM db (', ') PREDICT y', lambda q: q.query_str),
    ('retrain', 'RETRAIN m FROM db (', ')', lambda q: q.query_str),
    ('finetune', 'FINETUNE m FROM db (', ')', lambda q: q.query_str),
    ('evaluate', 'EVALUATE acc FROM (', ')', lambda q: q.query_str),
    ('create_view', 'CREATE VIEW v AS (', ')', lambda q: q.query_str),
    ('create_view_from', 'CREATE VIEW v FROM db (', ')', lambda q: q.query_str),
    ('create_job', 'CREATE JOB j (', ')', lambda q: q.query_str),
    ('create_job_if', 'CREATE JOB j ( select 1 ) IF (', ')', lambda q: q.if_query_str),
    ('create_trigger', 'CREATE TRIGGER t ON db.tbl (', ')', lambda q: q.query_str),
    ('native', 'SELECT * FROM db (', ')', lambda q: q.from_table.query),
]
VALID_INNER = [
    "SELECT * FROM t WHERE name = ''",
    "SELECT * FROM t WHERE name = 'it''s' AND x = 'a\\'b'",
    "SELECT a, 1.50 FROM t WHERE v = @v AND s = @@sv",
    "SELECT * FROM t\nWHERE a IN (1, 2)\n  AND b = 'x y'  -- tail\n",
    "SELECT f(a, (b + 1) * 2) FROM t /* c */ WHERE c = \"d q\"",
    "SELECT * FROM t WHERE a = 007 AND b = '' AND c = ''",
    "SELECT 'l1\n   l2' FROM t",
    "(SELECT a FROM t1) UNION (SELECT b FROM t2)",
    "SELECT * FROM t\n\nWHERE a = 1\n\n\n  AND b = 2",
]


def lexemes(text):
    from .slyexport import dialect_classes
    lx = dialect_classes('mindsdb')[0]()
    try:
        return [(t.type, text[t.index:t.end], t) for t in lx.tokenize(text)], True
    except Exception:   # noqa
        return [], False


def codes(s):
    return [ord(c) for c in s]


def _case(args):
    inner, tname = args
    from mindsdb_sql import parse_sql
    tmpl = next(t for t in TEMPLATES if t[0] == tname)
    sql = tmpl[1] + inner + tmpl[2]
    out = {'inner': inner, 'template': tname}
    try:
        q = parse_sql(sql, dialect='mindsdb')
        stored = tmpl[3](q)
    except Exception as e:   # noqa
        out['status'] = 'exc:%s' % type(e).__name__
        return out
    if not isinstance(stored, str):
        out['status'] = 'not-a-string'
        return out
    out['status'] = 'ok'
    out['stored'] = stored
    # the tokens between the parentheses as the lexer delivers them
    full, ok = lexemes(sql)
    a, b = len(tmpl[1]), len(tmpl[1]) + len(inner)
    toks = [{'ln': t.lineno, 'idx': t.index, 'val': codes(str(t.value)), 'src': codes(src)} for ty, src, t in full
            if a <= t.index < b]
    olex = [src for ty, src, t in full if a <= t.index < b]
    sl, slok = lexemes(stored)
    out['toks'] = toks
    out['olex'] = olex
    out['slex'] = [src for ty, src, t in sl]
    out['slexok'] = 1 if slok else 0
    # valid inner SELECT: the stored text must parse to the same tree
    try:
        t1 = parse_sql(inner, dialect='mindsdb')
    except Exception:   # noqa
        t1 = None
    if t1 is not None:
        from .project import jdump, proj
        try:
            t2 = parse_sql(stored, dialect='mindsdb')
            out['tree_equal'] = jdump(proj(t1)) == jdump(proj(t2))
        except Exception as e:   # noqa
            out['tree_equal'] = False
            out['reparse_error'] = type(e).__name__
    return out


def lexeme_class(lx):
    if lx.startswith("'"):
        if lx == "''":
            return 'string-empty'
        if '\n' in lx:
            return 'string-multiline'
        if "''" in lx[1:-1]:
            return 'string-doubled-quote'
        if '\\' in lx:
            return 'string-backslash'
        return 'string'
    if lx.startswith('"'):
        if "''" in lx:
            return 'dq-string-with-two-single-quotes'
        return 'dq-string'
    if lx.startswith('@@'):
        return 'system-variable'
    if lx.startswith('@'):
        return 'quoted-variable' if len(lx) > 1 and lx[1] in '`\'"' else 'variable'
    if lx[:1].isdigit():
        return 'number'
    if lx in '()':
        return 'parenthesis'
    return 'other'


def run(ctx):
    thorough = ctx.tier == 'thorough'
    r = ctx.tlc('RawQueryMC', cfg='RawQueryMC_plain.cfg', name='rawquery_plain')
    if r.violated or not r.ok:
        raise MachineryError('RawQueryMC_plain: transcription not verbatim on a layout without rewritten tokens: %s' % r.violated)
    r = ctx.tlc('RawQueryMC', cfg='RawQueryMC_rewrite.cfg', name='rawquery_rewrite', expect_violation=True)
    if 'StoredVerbatim' not in r.violated:
        raise MachineryError('spec sharpness lost: RawQueryMC does not exhibit the loss caused by rewritten token values')
    g = ctx.tlc('RawGen', cfg='RawGen3.cfg' if thorough else 'RawGen2.cfg', name='rawgen')
    gen = [(v[1], v[2]) for v in find_prints(g.out, 'RAW')]
    if len(gen) != g.distinct:
        raise MachineryError('RawGen: parsed %d of %d' % (len(gen), g.distinct))
    n_gen_all = len(gen)
    if thorough and len(gen) > 6000:
        import random
        rng = random.Random(ctx.seed + 16)
        short = [g_ for g_ in gen if len(g_[0]) < 3]
        long_ = [g_ for g_ in gen if len(g_[0]) >= 3]
        rng.shuffle(long_)
        gen = short + long_[:4000]
    inners = []
    for ks, sep in gen:
        s = SEP[sep]
        if sep == 'none':
            # written without gaps only where that still lexes as the same tokens
            lx_, ok_ = lexemes('SELECT' + ''.join(LEX[k] for k in ks) + ' c d')
            if not ok_ or [x[1] for x in lx_] != ['SELECT'] + [LEX[k] for k in ks] + ['c', 'd']:
                continue
        inners.append('SELECT' + ''.join(s + LEX[k] for k in ks))
        if sep in ('none', 'sp', 'nl'):
            # ... followed by two more words on the same line (what follows a token that spans lines / was glued to its neighbour)
            inners.append('SELECT' + ''.join(s + LEX[k] for k in ks) + (s or ' ') + 'c d')
    inners += VALID_INNER
    work = []
    for i, inner in enumerate(inners):
        if thorough or i >= len(gen):
            for t in TEMPLATES:
                work.append((inner, t[0]))
        else:
            for j in range(2):
                work.append((inner, TEMPLATES[(i + j * 5) % len(TEMPLATES)][0]))
    res = pmap(_case, work, chunksize=64)
    traces, meta = [], []
    n_rej = 0
    for x in res:
        if x['status'] != 'ok':
            if x['status'].startswith('exc:ParsingException') or x['status'].startswith('exc:LexError'):
                n_rej += 1
            else:
                ctx.violation('embedding-raises:%s' % x['status'], 'embedding command raised an internal error',
                              {'inner': x['inner'], 'template': x['template']})
            continue
        traces.append({'toks': x['toks'], 'stored': codes(x['stored']), 'olex': [codes(l) for l in x['olex']],
                       'slex': [codes(l) for l in x['slex']], 'slexok': x['slexok']})
        meta.append(x)
    path = ctx.work / 'rawtraces.json'
    dump_json(path, traces)
    tr = ctx.tlc('RawQueryTrace', env={'VERIF_TRACES': path}, name='rawquery_trace', timeout=3000)
    if not tr.ok:
        raise MachineryError('RawQueryTrace failed: %s' % tr.errors[:3])
    ver = {x[0]: x[1] for x in tr.prints('ACC')}
    if len(ver) != len(traces):
        raise MachineryError('RawQueryTrace judged %d of %d' % (len(ver), len(traces)))
    drift = 0
    for i, x in enumerate(meta):
        verdict, pos, model = ver[i + 1]
        key = '%s|%s' % (x['template'], x['inner'])
        if model != 'model-eq':
            drift += 1
        if verdict != 'ok':
            # the culprit: the first token whose value is not its lexeme any more with a visible loss, else by position
            rew = [(lexeme_class(l), l, ''.join(chr(c) for c in t['val'])) for l, t in zip(x['olex'], x['toks'])
                   if t['val'] != t['src'] and lexeme_class(l) not in ('string', 'dq-string', 'string-multiline')]
            if rew:
                cls = rew[0][0]
                # pinned per (command, culprit lexeme) and what that lexeme was stored as
                key = '%s|%s' % (x['template'], rew[0][1])
                observed = rew[0][2]
            else:
                cls = lexeme_class(x['olex'][pos - 1]) if 0 < pos <= len(x['olex']) else 'extra-or-missing-tokens'
                observed = x['stored']
            ctx.violation('stored:%s' % cls,
                          'the stored query text does not carry the lexemes the user wrote (first difference at token %d)' % pos,
                          {'inner': x['inner'], 'template': x['template'], 'stored': x['stored'], 'verdict': verdict},
                          pin=(key, observed))
        elif x.get('tree_equal') is False:
            ctx.violation('stored-parses-differently', 'parsing the stored text does not give the tree of the inner query',
                          {'inner': x['inner'], 'template': x['template'], 'stored': x['stored']}, pin=(key, x['stored']))
    ctx.cov['traces_validated_against_impl'] = len(traces)
    ctx.cov['evaluations'] = len(work)
    ctx.cov['rejected_by_parser'] = n_rej
    ctx.cov['stored_differs_from_transcription'] = drift
    ctx.cov['inner_queries'] = len(inners)
    if meta:
        ctx.sample({'template': meta[0]['template'], 'inner': meta[0]['inner'], 'stored': meta[0]['stored']})
        ctx.sample({'template': meta[-1]['template'], 'inner': meta[-1]['inner'], 'stored': meta[-1]['stored']})
    ctx.assumptions += ['"up to whitespace and comments" = same sequence of lexemes as tokenised by the dialect lexer',
                        'inner token kinds and separators as enumerated by RawGen (bounded length)']
    return ctx.finish(exhaustive=False)


def replay(ctx, path):
    rec = json.load(open(path))['replay']
    print(json.dumps(_case((rec['inner'], rec['template'])), indent=1)[:3000])
    return 0
