"""C02 -- parsing terminates on every input with a tree or a parsing error, never a crash.

design half : ParseSqlMC (call-level machine: outcome alphabet, nested-run budget, termination;
              TLC exhibits the leak when internal errors are possible) and SlyMC (Terminates,
              OutcomeAllowed of the LR driver on toy grammars, all inputs, without state constraint).
conformance : every parse_sql call over the corpus is recorded twice -- the driver events of its first
              run (SlyTrace, real tables) and the call-level events (ParseSqlTrace) -- and both traces
              must be behaviours whose invariants hold at every recorded step.
"""
import json
import os
import random

from . import slycheck
from .common import MachineryError, dump_json
from .corpus import DIALECTS, accepted, rejected, mutations, soups, vocabulary


def build_cases(ctx, n_stmts, muts, n_soups, n_gram=30):
    rng = random.Random(ctx.seed + 2)
    cases = []
    for f in ctx.findings:      # listed findings are re-executed first, deterministically
        rp = f.get('replay') or {}
        if 'sql' in rp:
            cases.append((rp['sql'], rp['dialect'], 'known-finding-replay'))
    for d in DIALECTS:
        acc = accepted(d)
        for s in acc:
            cases.append((s, d, 'asis'))
        for s in rejected(d):
            cases.append((s, d, 'test-string'))
        pick = list(acc)
        rng.shuffle(pick)
        for s in pick[:n_stmts]:
            for kind, m in mutations(d, s, rng, limit=muts):
                cases.append((m, d, kind))
        vocab = vocabulary(d, pick[:200])
        for s in soups(d, rng, n_soups, vocab):
            cases.append((s, d, 'soup'))
    # keywords spelled with the non-ASCII letters that a case-insensitive pattern takes for i, s and k (dotless / dotted I,
    # long s, Kelvin sign): the lexer accepts them, so every grammar action must cope with the spelling
    from .corpus import lex_spans
    fold = {'i': '\u0131', 'I': '\u0130', 's': '\u017f', 'S': '\u017f', 'k': '\u212a', 'K': '\u212a'}
    for d in DIALECTS:
        acc_ = list(accepted(d))
        rng.shuffle(acc_)
        n_f = 0
        for s_ in acc_:
            sp = lex_spans(d, s_)
            if not sp or len(sp) > 40:
                continue
            for j, (ty, a_, b_) in enumerate(sp):
                lx_ = s_[a_:b_]
                if ty in ('ID', 'QUOTE_STRING', 'DQUOTE_STRING', 'VARIABLE', 'SYSTEM_VARIABLE', 'INTEGER', 'FLOAT') or not lx_.isalpha():
                    continue
                for k_, ch in enumerate(lx_):
                    if ch in fold:
                        cases.append((s_[:a_ + k_] + fold[ch] + s_[a_ + k_ + 1:], d, 'keyword-unicode-casefold'))
                        n_f += 1
                        break
            if n_f >= (n_stmts // 2 if n_stmts < 1000 else 600):
                break
    # ... and every keyword of the grammar once (taken from the production-cover sentences), every foldable letter of it
    from . import grammargen as _gg
    for d in DIALECTS:
        done_ty = set()
        for s_, types, _u in _gg.cover_texts(ctx, d, variants=1):
            sp = lex_spans(d, s_)
            if not sp:
                continue
            for ty, a_, b_ in sp:
                lx_ = s_[a_:b_]
                if ty in done_ty or ty in ('ID', 'QUOTE_STRING', 'DQUOTE_STRING', 'VARIABLE', 'SYSTEM_VARIABLE', 'INTEGER', 'FLOAT'):
                    continue
                if not any(ch in fold for ch in lx_):
                    continue
                done_ty.add(ty)
                for k_, ch in enumerate(lx_):
                    if ch in fold:
                        cases.append((s_[:a_ + k_] + fold[ch] + s_[a_ + k_ + 1:], d, 'keyword-unicode-casefold'))
    # one representative (or several) of every Unicode general category, in several positions: alone, in a statement,
    # after a syntax error (the error callback drains the remaining tokens), inside quotes
    import unicodedata
    reps = {}
    for cp in list(range(0, 0x3000)) + list(range(0xD7F0, 0xE010)) + list(range(0xFDD0, 0xFE10)) + list(range(0xFFF0, 0x10010)) + \
            [0x1F600, 0x2FFFE, 0xE0001, 0xF0000, 0x10FFFF, 0x0378, 0x85, 0xA0, 0x2028, 0x2029, 0x200B, 0xFEFF, 0x202E]:
        ch = chr(cp)
        cat = unicodedata.category(ch)
        named = bool(unicodedata.name(ch, ''))
        lst = reps.setdefault((cat, named), [])
        if len(lst) < 2:
            lst.append(ch)
    for d in DIALECTS:
        for (cat, named), chs in sorted(reps.items()):
            for ch in chs:
                for tmpl in ('%s', 'select %s', 'select a %s from t', 'select a from t where %s = 1', 'select from %s',
                             "select '%s'", 'select `%s` from t', 'select a from t limit %s', 'select 1; %s'):
                    cases.append((tmpl % ch, d, 'unicode-%s' % cat))
    # sentences of the exported grammars (TLC GrammarGen) and token-level mutants of some of them
    from . import grammargen
    for d in DIALECTS:
        gen = grammargen.texts(ctx, d, n_gram if d == 'mindsdb' else max(4, n_gram // 3), edge=True)
        for s, types, used in grammargen.cover_texts(ctx, d, variants=3, edge=True):
            cases.append((s, d, 'production-cover'))
        for s, types, used in gen:
            cases.append((s, d, 'grammar-sentence'))
        rng.shuffle(gen)
        for s, types, used in gen[:n_stmts]:
            for kind, m in mutations(d, s, rng, limit=4):
                cases.append((m, d, 'grammar-' + kind))
    # lexeme-class substitutions on the production-cover sentences: every name position gets every shape of dotted path
    # (a star / a number / a quoted part in any place), every number position gets every boundary spelling of a number
    PATHS_ = ['a.*.b', '*.a', 'a.b.c.d.e', '`a`.*', 'a.`*`', 'a.1', '`a b`.`c.d`', 'a.*.*', 'a.b.*']
    NUMS_ = ['9' * 400 + '.5', '0', '1.5', '.5', '5.', '1e5', '00012', '9' * 30, '0.0', '-' + '9' * 400 + '.5']
    for d in DIALECTS:
        subs_id, subs_num = [], []
        for s_, types, _u in grammargen.cover_texts(ctx, d, variants=1):
            sp = lex_spans(d, s_)
            if not sp or len(sp) > 60:
                continue
            for j_, (ty, a_, b_) in enumerate(sp):
                if ty in ('ID', 'DQUOTE_STRING', 'PARAMETER') or (j_ > 0 and ty == 'CREATE'):       # the shortest spelling of a name in the cover sentences is "x" (mysql: ?)
                    subs_id += [(s_[:a_] + v_ + s_[b_:], d, 'path-substitution') for v_ in PATHS_]
                    subs_num += [(s_[:a_] + v_ + s_[b_:], d, 'number-substitution') for v_ in NUMS_[:3] + NUMS_[-1:]]
                elif ty in ('INTEGER', 'FLOAT', 'VARIABLE', 'QUOTE_STRING'):   # ... and of a value is @x
                    subs_num += [(s_[:a_] + v_ + s_[b_:], d, 'number-substitution') for v_ in NUMS_]
                    subs_id += [(s_[:a_] + v_ + s_[b_:], d, 'path-substitution') for v_ in PATHS_]
        if n_stmts < 1000:      # quick tier: a seeded sample of the name positions, all number positions
            rng.shuffle(subs_id)
            subs_id = subs_id[:7000 if d == 'mindsdb' else 5000]
            rng.shuffle(subs_num)
            subs_num = subs_num[:8000 if d == 'mindsdb' else 3000]
        cases += subs_id + subs_num
    seen = set()
    out = []
    for c in cases:
        if (c[0], c[1]) not in seen:
            seen.add((c[0], c[1]))
            out.append(c)
    return out


def prod_str(tab, n):
    p = tab['prods'][n - 1]
    return '%s : %s' % (p['name'], ' '.join(p['rhs']))


def signature(ctx, sql, d, res):
    """Input-side coordinates of an internal failure."""
    tab = slycheck.dialect_tables(ctx, d)
    fin = res['final']
    cls = fin.split(':', 1)[1] if ':' in fin else fin
    tr = res['trace']
    ev = tr['events'][-1] if tr['events'] else None
    if tr['outcome'] == 'raised_internal' and ev is not None:
        if ev['e'] == 'action_raise':
            return 'internal:%s:action:%s:%s' % (cls, prod_str(tab, ev['n']), d)
        if ev['e'] == 'cb_raise':
            return 'internal:%s:error-callback:%s' % (cls, d)
        return 'internal:%s:lex:%s' % (cls, d)
    if res.get('nested_raise_prod'):
        return 'internal:%s:report:nested-action:%s:%s' % (cls, prod_str(tab, res['nested_raise_prod']), d)
    if fin.startswith('internal:'):
        return 'internal:%s:report:%s' % (cls, d)
    return '%s:%s' % (fin, d)


def _outcome_only(args):
    sql, d = args
    from mindsdb_sql import parse_sql
    from mindsdb_sql.exceptions import ParsingException
    from mindsdb_sql.parser.ast.base import ASTNode
    try:
        r = parse_sql(sql, d)
        return 'tree' if isinstance(r, ASTNode) else 'not-a-tree:%s' % type(r).__name__
    except ParsingException:
        return 'ParsingException'
    except Exception as e:   # noqa
        return ('LexError' if type(e).__name__ == 'LexError' else 'internal:%s:%s' % (type(e).__name__, str(e)[:100]))


def _trace_one_c02(args):
    from .ptrace import trace_parse_sql, final_outcome
    from .slyrec import finish_events
    sql, d = args
    r = trace_parse_sql(sql, d)
    exc = r['exc']
    out = {'trace': r['trace'], 'call': r['call'], 'final': final_outcome(r['result'], exc),
           'msg': (str(exc)[:300] if exc is not None else ''), 'nested': r['nested_runs']}
    runs = r['rec'].runs
    if len(runs) > 1 and exc is not None and runs[-1] and runs[-1][-1]['e'] == 'reduce_begin':
        out['nested_raise_prod'] = runs[-1][-1]['n']
    out['n_events_all'] = sum(len(x) for x in runs)
    out['n_tokens'] = len(r['trace']['input'])
    return out


def run(ctx):
    thorough = ctx.tier == 'thorough'
    # --- design half
    r = ctx.tlc('ParseSqlMC', cfg='ParseSqlMC_ok.cfg', workers=4, name='parsesql_ok')
    if r.violated or not r.ok:
        raise MachineryError('ParseSqlMC_ok: %s %s' % (r.violated, r.errors[:2]))
    r = ctx.tlc('ParseSqlMC', cfg='ParseSqlMC_leak.cfg', workers=4, name='parsesql_leak', expect_violation=True)
    if 'OutcomeAllowed' not in r.violated:
        raise MachineryError('spec sharpness lost: ParseSqlMC does not exhibit the internal-error leak')
    ctx.cov['design_runs'] = slycheck.toy_design(ctx, 5 if thorough else 4)
    ctx.cov['toy_binding'] = slycheck.toy_traces(ctx, 4)
    # clause-order automaton (ClauseOrder.tla): design theorem + every clause list through the real parsers
    from . import clauseorder
    n_clause = clauseorder.run(ctx, 5 if thorough else 4)

    # --- termination on adversarial lexical input: repeated escape-like pairs in an unterminated literal / comment make a
    # backtracking pattern explode (2^n).  Budget: 30 s for inputs a linear lexer handles in microseconds.
    import subprocess
    from .common import PY, REPO, VERIF
    cases_long = []
    cases_flat = []
    adv = []
    for q in ("'", '"', '`'):
        for unit in ('\\a', '\\\\', '\\' + q, q + q, 'a' + q + q):
            adv.append('select ' + q + unit * 32)
    adv += ['select /* ' + '*/*' * 40 + ' /', 'select -- ' + '-' * 3000, 'select ' + '(' * 60 + '1', 'select @`' + '\\a' * 32,
            'select ' + '1e' * 40, 'select a' + ' -- c\n' * 200]
    # long literals (python refuses int() of more than 4300 digits)
    for s_ in ('select ' + '9' * 5000, 'select a from t limit ' + '1' * 4400, 'select 1.' + '9' * 5000, "select '" + 'x' * 20000 + "'",
               'select ' + 'a' * 20000, 'select `' + 'b' * 5000 + '`', 'select a from t where b in (' + ', '.join(['1'] * 500) + ')'):
        for d_ in DIALECTS:
            cases_long.append((s_, d_, 'long-literal'))
    # long FLAT inputs (a few kilobytes): chains of one operator, lists, arms, joined tables -- the tree is deep or wide,
    # the text is not nested
    n_ = 1500
    for s_ in ('select a from t where ' + ' or '.join(['a = 1'] * n_), 'select a from t where ' + ' and '.join(['b > 2'] * n_),
               'select a from t group by a having ' + ' or '.join(['count(*) > 1'] * n_), 'delete from t where ' + ' and '.join(['a = 1'] * n_),
               'select ' + ' + '.join(['1'] * n_), 'select ' + ' * '.join(['a'] * n_) + ' from t', "select " + " || ".join(["'x'"] * n_),
               'select ' + ', '.join(['a'] * n_) + ' from t', 'select a from t where ' + 'not ' * 1200 + 'a = 1',
               'select a from t where ' + '- ' * 1200 + 'a > 1', 'select case ' + ' '.join(['when a = 1 then 2'] * 600) + ' end from t',
               ' union '.join(['select 1'] * 400), 'select * from t0 ' + ' '.join('join t%d on t%d.a = t0.a' % (i, i) for i in range(1, 300)),
               'insert into t (a) values ' + ', '.join(['(1)'] * n_), 'select a from t order by ' + ', '.join(['a'] * n_),
               'update t set ' + ', '.join('c%d = 1' % i for i in range(n_)), 'select f(' + ', '.join(['1'] * n_) + ')',
               'select a from t where a = 1 ' + 'and (b = 2 or c = 3) ' * 700, 'select a.' + '.'.join(['b'] * 600) + ' from t'):
        for d_ in DIALECTS:
            cases_flat.append((s_, d_))
    for d in DIALECTS:
        code = ('import sys, json\nfrom mindsdb_sql import parse_sql\nfor s in json.loads(sys.stdin.read()):\n'
                '    try:\n        parse_sql(s, %r)\n    except Exception:\n        pass\n    print("done", flush=True)\n' % d)
        try:
            pr = subprocess.run([PY, '-c', code], input=json.dumps(adv), env=dict(os.environ, PYTHONPATH='%s:%s' % (REPO, VERIF)),
                                stdout=subprocess.PIPE, stderr=subprocess.PIPE, text=True, timeout=30)
            ndone = pr.stdout.count('done')
        except subprocess.TimeoutExpired as ex:
            ndone = (ex.stdout or b'').decode().count('done') if isinstance(ex.stdout, bytes) else (ex.stdout or '').count('done')
            ctx.violation('no-termination-within-budget:lexical:%s' % d,
                          'parse_sql does not return within 30 s on a short adversarial input (exponential backtracking?)',
                          {'sql': adv[min(ndone, len(adv) - 1)], 'dialect': d, 'kind': 'adversarial', 'final': 'timeout'})
    ctx.cov['adversarial_lexical_inputs'] = len(adv) * len(DIALECTS)

    # --- calls that overlap in time (schedules enumerated by TLC from Calls.tla, forced onto real threads with the
    # driver hook as scheduling points): every call must still end in a tree / ParsingException
    from . import c20
    sch = c20.schedules_from_tlc(ctx, 'Calls_fresh.cfg', 'calls_fresh_c02')
    rngc = random.Random(ctx.seed + 22)
    stm = {'mindsdb': ['select a, b from t where c = 1', 'create model m from db (select 1) predict y', 'select * from (', 'insert into t values (1, 2)'],
           'mysql': ['select a from t order by b', 'select 1 +', 'show tables', 'update t set a = 1 where b = 2'],
           'sqlite': ['select a from t limit 1', 'select )', 'delete from t where a = 1', 'select a, b from t join u on t.a = u.a']}
    n_inter = 0
    for d in DIALECTS:
        calls_ = [('parse', x, d) for x in stm[d]]
        base_ = {c: c20.do_call(c) for c in calls_}
        for i in range(len(calls_)):
            pa = [calls_[i], calls_[(i + 1) % len(calls_)]]
            for sc in rngc.sample(sch, min(len(sch), 5 if not thorough else 40)):
                res, evs, st = c20.run_schedule(pa, sc, base_)
                n_inter += 1
                for c, got in zip(pa, res):
                    if got is None:
                        ctx.cov['interleaved_unfinished'] = ctx.cov.get('interleaved_unfinished', 0) + 1
                        continue        # the forced schedule could not be completed in time (machine load): not judged
                    if got.startswith('exc:') and not got.startswith(('exc:ParsingException', 'exc:LexError')):
                        ctx.violation('internal:%s:interleaved-calls:%s' % ((got or 'exc:None').split(':')[1], d),
                                      'a parse_sql call that overlaps in time with another one ends in an internal error',
                                      {'sql': c[1], 'dialect': d, 'kind': 'interleaved', 'final': (got or 'None')[:200],
                                       'other': pa[0][1] if c is pa[1] else pa[1][1], 'schedule': list(sc)})
    ctx.cov['interleaved_call_pairs'] = n_inter

    # --- conformance half
    from .corpus import pmap
    cases = build_cases(ctx, 2000 if thorough else 220, 30 if thorough else 10, 6000 if thorough else 700,
                        150 if thorough else 16)
    cases += cases_long
    all_cases = cases
    # long flat inputs: outcome only (their driver traces would be tens of thousands of events each)
    for (sql_, d_), fin_ in zip(cases_flat, pmap(_outcome_only, cases_flat, chunksize=1)):
        if fin_.split(':')[0] not in ('tree', 'ParsingException', 'LexError'):
            ctx.violation('internal:%s:long-flat-input:%s' % (fin_.split(':')[1] if ':' in fin_ else fin_, d_),
                          'parse_sql ends in %s on a long but flat input (%d characters)' % (fin_[:120], len(sql_)),
                          {'sql': sql_[:300] + ' ...', 'length': len(sql_), 'dialect': d_, 'kind': 'long-flat', 'final': fin_[:200]})
    ctx.cov['long_flat_inputs'] = len(cases_flat)
    # two clauses / options / list items of one statement together (derivation trees at the self-recursive nonterminals of the
    # exported grammars), constants of every kind at the `constant` positions, string positions spelled with dates (with and
    # without a time zone), numbers, JSON and SQL text: outcome only
    from . import grammargen as _gg2
    combo = []
    for d_ in DIALECTS:
        depth_ = 3 if thorough else 2.5
        combo += [(t_, d_) for t_, _ty, _u in _gg2.pair_cover_texts(ctx, d_, depth=depth_, seed=4101)]
        combo += [(t_, d_) for t_, _ty, _u in _gg2.const_kind_texts(d_, _gg2.cover_sentences(d_, override={'constant': [_gg2.CONST]}), 4101)]
        for sents_ in (_gg2.cover_sentences(d_, override={'string': [_gg2.CONST]}),
                       _gg2.pair_cover_sentences(d_, 2, override={'string': [_gg2.CONST]})):
            more_ = [(t_, d_) for t_, _ty, _u in _gg2.const_kind_texts(d_, sents_, 4101, bases=_gg2.STRING_BASES, alts=_gg2.STRING_ALTS)]
            cap_ = 40000 if thorough else 7000      # (sqlite's shortest expression is a string: every expression position qualifies)
            combo += more_ if len(more_) <= cap_ else more_[::len(more_) // cap_ + 1]
    combo = sorted(set(combo))
    n_combo_tree = 0
    for (sql_, d_), fin_ in zip(combo, pmap(_outcome_only, combo, chunksize=64)):
        n_combo_tree += fin_ == 'tree'
        if fin_.split(':')[0] not in ('tree', 'ParsingException', 'LexError'):
            ctx.violation('internal:%s:clause-combination:%s' % (fin_.split(':')[1] if ':' in fin_ else fin_, d_),
                          'parse_sql ends in %s on a combination of clauses / kinds of constants' % fin_[:160],
                          {'sql': sql_, 'dialect': d_, 'kind': 'clause-combination', 'final': fin_[:200]})
    ctx.cov['clause_combinations'] = {'inputs': len(combo), 'accepted': n_combo_tree}
    outcomes = {}
    n_valid = 0
    samples = []
    BATCH = 60000      # bounds memory: driver traces of one batch are validated and dropped before the next is recorded
    for b0 in range(0, len(all_cases), BATCH):
        cases = all_cases[b0:b0 + BATCH]
        bi = b0 // BATCH
        results = pmap(_trace_one_c02, [(s, d) for s, d, _ in cases], chunksize=16)
        # driver-level validation
        dverd = [None] * len(cases)
        for d in DIALECTS:
            idx = [i for i, c in enumerate(cases) if c[1] == d]
            v = slycheck.validate_traces(ctx, slycheck.dialect_tables(ctx, d), [results[i]['trace'] for i in idx], 'trace_%s_%d' % (d, bi))
            for i, vv in zip(idx, v):
                dverd[i] = vv
        # call-level validation
        trpath = ctx.work / ('calltraces_%d.json' % bi)
        dump_json(trpath, [r_['call'] for r_ in results])
        tr = ctx.tlc('ParseSqlTrace', workers=None, env={'VERIF_TRACES': trpath}, name='calltrace_%d' % bi)
        if not tr.ok:
            raise MachineryError('ParseSqlTrace failed: %s' % tr.errors[:3])
        cverd = [None] * len(cases)
        for item in tr.prints('ACC'):
            cverd[item[0] - 1] = (item[1], item[2])

        for (sql, d, kind), res, dv, cv in zip(cases, results, dverd, cverd):
            outcomes[res['final'].split(':')[0]] = outcomes.get(res['final'].split(':')[0], 0) + 1
            fin = res['final']
            bad = None
            if cv is None:
                bad = 'call trace is not a ParseSql behaviour (final outcome %s)' % fin
            elif 'OutcomeAllowed' in cv[1] or cv[1]:
                bad = 'ParseSql invariant(s) %s violated (final outcome %s)' % (sorted(cv[1]), fin)
            if dv is not None and 'OutcomeAllowed' in dv[1]:
                bad = (bad or '') + ' driver run ended in an internal error'
            if fin not in ('tree', 'ParsingException', 'LexError') and bad is None:
                bad = 'outcome %s' % fin
            # step budget: a terminating call uses a number of driver events linear in the input
            budget = 50 * (res['n_tokens'] + 2) * (1 + 2 * 19)
            if res['n_events_all'] > budget:
                bad = (bad or '') + ' step budget exceeded (%d events for %d tokens)' % (res['n_events_all'], res['n_tokens'])
            if bad:
                if fin in ('tree', 'ParsingException', 'LexError') and cv is None:
                    sig = 'call-trace-rejected:%s' % d
                else:
                    sig = signature(ctx, sql, d, res)
                ctx.violation(sig, bad + ' -- ' + res['msg'][:200], {'sql': sql, 'dialect': d, 'kind': kind, 'final': fin,
                                                                   'call_events': res['call']['events'][-12:]})
            if dv is None:
                ctx.cov['drift'] = ctx.cov.get('drift', 0) + 1
        n_valid += sum(1 for v in dverd if v is not None) + sum(1 for v in cverd if v is not None)
        samples += list(zip(cases, results))[::max(1, len(all_cases) // 6)]
        for f_ in ctx.work.glob('trace_*_traces.json'):
            f_.unlink()
    cases = all_cases
    ctx.cov['traces_validated_against_impl'] += n_valid + n_clause
    ctx.cov['evaluations'] = len(cases)
    ctx.cov['final_outcomes'] = outcomes
    kinds = {}
    for c in cases:
        kinds[c[2]] = kinds.get(c[2], 0) + 1
    ctx.cov['case_kinds'] = kinds
    for (sql, d, kind), res in samples[:8]:
        ctx.sample({'sql': sql[:160], 'dialect': d, 'kind': kind, 'final': res['final'],
                    'call_events': [e['e'] + (':' + e['o'] if e['o'] else '') for e in res['call']['events']]})
    ctx.assumptions += ['"reasonably sized input": statements of the test corpus and mutants thereof (<= 3000 chars)',
                        'termination is observed as a finite recorded trace within a linear step budget',
                        'RecursionError is not provoked (no deep nesting generator in this tier)']
    return ctx.finish(exhaustive=False)


def replay(ctx, path):
    rec = json.load(open(path))['replay']
    res = _trace_one_c02((rec['sql'], rec['dialect']))
    print(json.dumps({'final': res['final'], 'msg': res['msg'], 'call': res['call']['events']}, indent=1))
    return 0 if res['final'] in ('tree', 'ParsingException', 'LexError') else 1
