"""C17 -- the renderer honours its fallback contract and never leaks internal errors.

design : RenderCall.tla -- the contract holds iff translation/compilation raise only the two documented classes and
         both phases sit inside the try block; TLC exhibits Escapes(KeyError) and the unguarded-compile leak otherwise.
conform: every parser-produced tree from the corpora (test-suite statements, TLC GrammarGen sentences, one sentence per
         grammar production, targeted unsupported shapes) x 7 dialect names x fallback on/off: get_string and
         get_exec_params are called on the tree; outcome, exception class and the tree's projection before/after
         (generic reflection, private attributes included) are recorded and judged by TLC (RenderTrace).
"""
import json
import random

from .common import MachineryError, dump_json
from .corpus import pmap, accepted

DIALECTS = ['mysql', 'postgresql', 'postgres', 'sqlite', 'mssql', 'oracle', 'Snowflake']
TARGETED = [
    'select cast(a as foo) from t', 'select count(a, b) from t', 'select (a, b) = (1, 2) from t', 'select a from t limit 2 offset 1',
    'select * from (select a from t limit 2) as s', "insert into t (a, b) values (1, 'x'), (2, 'y')",
    'create table t (a serial, b varchar, c int primary key)', 'create table t (a int, b text default 5)',
    'select a from t where b = interval 1 day', 'select a->b, a->>c from t', 'select a::int from t',
    'select * from t1 right join t2 on t1.a = t2.a', 'select * from int1 (select 1) as q', 'select latest from t',
    'select sum(a) over (partition by b order by c rows between 1 preceding and current row) from t',
    'select a from t order by a nulls first', 'select case a when 1 then 2 end from t', 'select @v, @@s from t',
    'select a from t where b in (select c from u) limit 3', 'update t set a = 1 from (select 1) as s where t.a = s.a',
    'delete from t where a = 1', 'drop table t', 'drop table if exists a.b, c', 'select length(a), ifnull(b, 1) from t where isnull(c, 0) = 1',
    'select substring(a from 2 for 3) from t', 'select a from t where b like ? and c = ?', 'select not a, -b, a % 2 from t',
    'select a from t group by 1 having count(*) > 1', 'select distinct on (a) a, b from t', 'select a from t for update',
    'select * from t1, t2 where t1.a = t2.a', 'with c as (select 1) select * from c', 'select a from t union all select b from u limit 2',
    'select exists(select 1), a between 1 and 2 from t', 'select date(a), extract(month from b) from t',
    'select a from t where a is true',
    'select a from t where length(b) > 1 and ifnull(c, 0) = 1 and char_length(d) < now() order by ceil(e), upper(f)',
    'select coalesce(lower(a), substr(b, 1, 2)) from t where abs(c) = round(d, 1) group by concat(a, b) having max(length(a)) > 1',
    'insert into t (a) select length(b) from u where ifnull(c, 1) = 1',
    # long but ordinary statements (a few hundred terms): nothing may escape the fallback for them either
    'select a from t where ' + ' or '.join('c%d = %d' % (i, i) for i in range(300)),
    'select ' + ' + '.join('c%d' % i for i in range(300)) + ' from t',
    'select a from t where ' + ' and '.join('c%d > %d' % (i, i) for i in range(250)),
    'select a from t where b in (' + ', '.join(str(i) for i in range(500)) + ')',
    # single-element lists, boundary numbers, values that overflow to inf, odd column lists
    'select a from t where b in (1)', "select a from t where b in ('x')", 'select a from t where b not in (c + 1)', 'select a from t where b in (?)',
    'select a from t where b in ((1))', 'select a from t where (b) in (1, 2)', 'select a from t limit 0', 'select a from t where b = -0',
    'create model m predict y using a = ' + '9' * 400 + '.5', 'select count(a, b) from t using x = ' + '9' * 400 + '.0, y = [1, ' + '9' * 400 + '.0]',
    'create model m from db (select 1) predict y using a = {"k": ' + '9' * 400 + '.0}', 'select ' + '9' * 400 + '.0 from t',
    'select a from t where b = ' + '9' * 400 + '.0', 'retrain m using a = ' + '9' * 400 + '.0',
    'update t set a = length(b) where char_length(c) > 2',
    'select * from (select length(a) as l from t where ifnull(b, 0) = 0) as s', 'select b.* from a.b', 'select `a b`.`c d` from `e f`', 'select 1.5, null, true, \'x\'',
]


def _case(args):
    sql, d = args[0], args[1]
    pd = args[2] if len(args) > 2 else 'mindsdb'        # dialect whose parser builds the tree
    from mindsdb_sql import parse_sql
    from mindsdb_sql.render.sqlalchemy_render import SqlalchemyRender
    from .project import jdump, proj
    out = []
    try:
        tree = parse_sql(sql, pd)
    except Exception:   # noqa
        return None
    kind = type(tree).__name__
    for flag in (True, False):
        for api in ('get_string', 'get_exec_params'):
            before = jdump(proj(tree, private=True))
            before_s = None
            try:
                before_s = str(tree)
            except Exception:   # noqa
                pass
            rec = {'flag': 1 if flag else 0, 'api': api, 'out': 'str', 'cls': '', 'nonstr': 0, 'mutated': 0, 'msg': ''}
            try:
                r = getattr(SqlalchemyRender(d), api)(tree, with_failback=flag)
                text = r if api == 'get_string' else r[0]
                rec['nonstr'] = 0 if isinstance(text, str) else 1
            except Exception as e:   # noqa
                from sqlalchemy.exc import SQLAlchemyError
                rec['out'] = 'raises'
                rec['cls'] = 'SQLAlchemyError' if isinstance(e, SQLAlchemyError) else \
                    ('NotImplementedError' if isinstance(e, NotImplementedError) else type(e).__name__)
                rec['msg'] = '%s: %s' % (type(e).__name__, str(e)[:120])
            after = jdump(proj(tree, private=True))
            changed = after != before
            if not changed and before_s is not None:
                try:
                    changed = str(tree) != before_s
                except Exception:   # noqa
                    pass
            rec['mutated'] = 1 if changed else 0
            out.append(rec)
            if changed:
                # continue with a fresh tree so that one mutation is not counted again
                tree = parse_sql(sql, pd)
    return {'sql': sql, 'dialect': d, 'kind': kind, 'recs': out, 'parser': pd}


def run(ctx):
    thorough = ctx.tier == 'thorough'
    rng = random.Random(ctx.seed + 17)
    for cfg, want in (('RenderCall_ok.cfg', None), ('RenderCall_leak.cfg', 'Contract'), ('RenderCall_unguarded.cfg', 'Contract')):
        r = ctx.tlc('RenderCall', cfg=cfg, workers=2, name=cfg[:-4], expect_violation=bool(want))
        if want:
            if want not in r.violated:
                raise MachineryError('spec sharpness lost: %s does not violate the contract' % cfg)
        elif r.violated or not r.ok:
            raise MachineryError('RenderCall_ok: %s' % r.violated)
    from . import grammargen
    stmts = list(TARGETED)
    # every targeted SELECT again with quote characters in a constant and in a name (what a fallback / post-processing of the
    # printed text may trip over), and common SQL functions with 0..3 arguments (dialect-specific rewrites of calls)
    quoted = [q.replace('select ', "select 'it''s' as q1, `it's`, \"d'e\" as q2, ", 1) for q in TARGETED
              if q.startswith('select ') and len(q) < 300]
    fns = ['round', 'abs', 'ceil', 'floor', 'length', 'char_length', 'lower', 'upper', 'trim', 'substr', 'substring', 'concat',
           'coalesce', 'ifnull', 'isnull', 'nullif', 'now', 'current_date', 'date', 'year', 'extract', 'cast', 'convert', 'count',
           'sum', 'avg', 'min', 'max', 'left', 'right', 'replace', 'mod', 'power', 'sqrt', 'log', 'exp', 'greatest', 'least',
           'date_add', 'datediff', 'json_extract', 'if', 'iif', 'to_char', 'strftime', 'rand', 'random', 'sign', 'truncate', 'trunc']
    calls = []
    for f_ in fns:
        for args_ in ('', 'a', 'a, 1', 'a, 1, 2'):
            calls.append('select %s(%s) from t' % (f_, args_))
            calls.append('select a from t where %s(%s) > 1 order by %s(%s)' % (f_, args_, f_, args_))
    n_t0 = len(stmts)
    stmts += quoted + calls
    n_targeted = len(stmts)
    acc = [s for s in accepted('mindsdb') if len(s) < 600]
    rng.shuffle(acc)
    stmts += acc[:(100000 if thorough else 250)]
    cov = grammargen.cover_texts(ctx, 'mindsdb', variants=1)
    stmts += [s for s, _, _ in cov]
    gen = grammargen.texts(ctx, 'mindsdb', 300 if thorough else 12)
    rng.shuffle(gen)
    stmts += [s for s, _, _ in gen[:(50000 if thorough else 600)]]
    seen = set()
    work = []
    for i, s in enumerate(stmts):
        if s in seen:
            continue
        seen.add(s)
        ds = DIALECTS if (thorough or i < n_targeted) else [DIALECTS[i % len(DIALECTS)], DIALECTS[(i + 3) % len(DIALECTS)]]
        for d in ds:
            work.append((s, d))
    # trees built by the other two dialect parsers (their grammars accept shapes the mindsdb grammar does not)
    for pd in ('mysql', 'sqlite'):
        extra = ['insert into t (1, b) values (2, 3)', 'insert into t (a, false, *) values (1, 2, 3)', 'select a from t where b in (1)',
                 "select 'x' 'y' from t", 'select a from t order by 1 desc limit 1, 2']
        cov_ = [s_ for s_, _, _ in grammargen.cover_texts(ctx, pd, variants=1)]
        for i, s_ in enumerate(extra + cov_):
            work.append((s_, DIALECTS[i % len(DIALECTS)], pd))
    res = [r for r in pmap(_case, work, chunksize=16) if r]
    traces, meta = [], []
    for r in res:
        for rec in r['recs']:
            traces.append({'flag': rec['flag'], 'out': rec['out'], 'cls': rec['cls'], 'nonstr': rec['nonstr'],
                           'mutated': rec['mutated']})
            meta.append((r, rec))
    path = ctx.work / 'rendertraces.json'
    dump_json(path, traces)
    tr = ctx.tlc('RenderTrace', env={'VERIF_TRACES': path}, name='rendertrace', timeout=3000)
    if not tr.ok:
        raise MachineryError('RenderTrace failed: %s' % tr.errors[:3])
    ver = {x[0]: x[1] for x in tr.prints('ACC')}
    if len(ver) != len(traces):
        raise MachineryError('RenderTrace judged %d of %d' % (len(ver), len(traces)))
    kinds = {}
    for i, (r, rec) in enumerate(meta):
        kinds[r['kind']] = kinds.get(r['kind'], 0) + 1
        for flag in ver[i + 1]:
            if flag == 'TreeMutated':
                sig = 'TreeMutated:%s' % r['kind']
            else:
                sig = '%s:%s:%s' % (flag, rec['cls'], r['kind'])
            ctx.violation(sig, 'renderer contract: %s (%s)' % (flag, rec['msg']),
                          {'sql': r['sql'], 'dialect': r['dialect'], 'api': rec['api'], 'with_failback': bool(rec['flag']),
                           'parsed_by': r.get('parser')},
                          pin=('%s|%s' % (r['sql'], r['dialect']), [flag, rec['cls']]))
    ctx.cov['traces_validated_against_impl'] = len(traces)
    ctx.cov['evaluations'] = len(traces)
    ctx.cov['statements'] = len(seen)
    ctx.cov['statement_kinds'] = kinds
    ctx.sample({'sql': meta[0][0]['sql'], 'dialect': meta[0][0]['dialect'], 'record': meta[0][1]})
    ctx.sample({'sql': meta[-1][0]['sql'], 'dialect': meta[-1][0]['dialect'], 'record': meta[-1][1]})
    ctx.assumptions += ['trees come from the mindsdb dialect parser (the superset grammar)',
                        '"never mutates" is judged on the reflection projection incl. private attributes and on str()']
    return ctx.finish(exhaustive=False)


def replay(ctx, path):
    rec = json.load(open(path))['replay']
    print(json.dumps(_case((rec['sql'], rec['dialect'])), indent=1)[:3000])
    return 0
