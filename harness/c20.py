"""C20 -- calls are isolated: same input, same result, whatever ran before or alongside.

design half : Calls.tla -- Isolation and OwnerExclusive hold under every interleaving for the "Fresh"
              instance policy; TLC exhibits the corrupting interleaving for "Cached".
conformance : (a) schedules: every interleaving TLC enumerates for 2 (3) calls is FORCED on real threads
              through the blocking sink (driver-step granularity for parse, method granularity for plan and
              render); each result must equal its sequential baseline and the combined event log is
              validated by CallsTrace (one owner per instance); plus free-running threads.
              (b) histories: the corpus in shuffled orders with failing calls interleaved, sharing one
              catalog object, against a fresh-process baseline.
              (c) configurations: subprocesses under several PYTHONHASHSEED values must agree.
"""
import copy
import json
import os
import random
import subprocess
import sys
import threading

from .common import MachineryError, dump_json, PY, VERIF, REPO
from .project import digest, plan_proj, jdump, proj

CATALOG = dict(
    integrations=['int1', 'int2', {'name': 'proj', 'type': 'project'}],
    predictor_metadata=[{'name': 'pred', 'integration_name': 'mindsdb'},
                        {'name': 'pred2', 'integration_name': 'proj', 'to_predict': ['y']},
                        {'name': 'tp', 'integration_name': 'mindsdb', 'timeseries': True, 'window': 3,
                         'order_by_column': 'ts', 'group_by_columns': ['g']},
                        {'name': 'tpx', 'integration_name': 'mindsdb', 'timeseries': True, 'window': 2,
                         'order_by_column': 'ts', 'group_by_columns': ['g', 'h', 'k', 'region', 'store']}],
    default_namespace='mindsdb',
)

PARSE = [
    ("select a, b + 1 as c from int1.t1 where a > 1 and b in (1, 2) order by a limit 3", 'mindsdb'),
    ("select * from t1 join t2 on t1.a = t2.a where t1.b = 'x'", 'mysql'),
    ("select count(*) from t group by a having count(*) > 1", 'sqlite'),
    ("CREATE MODEL m FROM int1 (select * from t where a = 'b') PREDICT y USING engine = 'x'", 'mindsdb'),
    ("select from where", 'mindsdb'),
    ("select 1 +", 'mindsdb'),
    ("selct x", 'mysql'),
    ("insert into int1.t (a, b) values (1, 'x'), (2, 'y')", 'mindsdb'),
    ("update int1.t set a = 1 where b = 2", 'mindsdb'),
    ("select case when a > 1 then 'x' else 'y' end from t", 'sqlite'),
    ("select * from int1.t1 where a in (select b from int2.t2)", 'mindsdb'),
    ("show tables from x ☃", 'mindsdb'),
]
PLAN = [
    "select * from int1.t1 join int2.t2 on t1.a = t2.a where t1.b = 1",
    "select * from int1.t1 where a in (select b from int2.t2)",
    "select t.a, m.y from int1.t as t join mindsdb.pred as m where t.b > 1",
    "select t.a, m.y from int1.t as t join proj.pred2 as m",
    "select * from int1.t1 union select * from int2.t2",
    "select a from int1.t1 where b = 2 order by a limit 2",
    "select * from int1.t as t join mindsdb.tp as m where t.ts > LATEST and t.g = 1",
    "insert into int1.t2 (a) select a from int2.t1",
    "select * from mindsdb.pred where a = 1",
    "select * from nosuch.t1 join int9.t2",
    "delete from int1.t where a = 1",
    # planning failures whose message lists names: the text must not depend on the hash seed
    "select * from int1.t as t join mindsdb.tp as m where t.ts > LATEST and t.other = 1",
    "select * from int1.t as t join mindsdb.tpx as m where t.zzz = 1 and t.yyy = 2",
    "select * from int1.t as t join mindsdb.tpx as m where t.ts between 1 and 2 and t.g = 1 or t.h = 2",
]
RENDER_SQL = [
    "select a, b from t where a = 'it''s' order by b desc limit 2",
    "select * from t1 left join t2 on t1.a = t2.a",
    "select cast(a as foo) from t",
    "insert into t (a) values (1)",
    "create table t (a int, b text)",
    "select `order`, `User Name`, `MixedCase` from `select` where `group` = 1",
    "update `table` set `key` = 1 where `User Name` = 'x'",
    # the same object named in several statements with different definitions (process-wide registries keyed by name)
    "create table t (c int, d text, e int)",
    "create or replace table t (x int)",
    "drop table t",
    "select c, d from t",
]
RENDER_DIALECTS = ['mysql', 'postgresql', 'sqlite', 'mssql', 'oracle']
RENDER_SQL_CASTS = ["select cast(a as float), cast(a as int), cast(a as text) from t",
                    "select cast(a as double), cast(b as date), cast(c as varchar) from t where cast(d as float) > 1.5",
                    "insert into t (a, b) values (1, 2), (3, 4)"]
RENDER = [(s, d) for s in RENDER_SQL for d in RENDER_DIALECTS]
# the renderer given the caller's dialect CLASS instead of a name (it must not be changed by any renderer)
RENDER_CLASS = [(s, d) for s in RENDER_SQL_CASTS + RENDER_SQL[:2] for d in RENDER_DIALECTS]
RENDER += [(s, d) for s in RENDER_SQL_CASTS for d in RENDER_DIALECTS]

# a catalog with several projects and model namespaces and NO default namespace (messages that list names)
CATALOG_MANY = dict(
    integrations=['int1', 'int2', {'name': 'proj', 'type': 'project'}, {'name': 'proj2', 'type': 'project'},
                  {'name': 'analytics', 'type': 'project'}, {'name': 'files', 'type': 'data'}],
    predictor_metadata=[{'name': 'pred', 'integration_name': 'mindsdb'}, {'name': 'pred2', 'integration_name': 'proj'},
                        {'name': 'pred3', 'integration_name': 'ml_a'}, {'name': 'pred4', 'integration_name': 'ml_b'},
                        {'name': 'pred5', 'integration_name': 'ml_c'}])


def dialect_class(name):
    import importlib
    return importlib.import_module('sqlalchemy.dialects.' + name).dialect


def dialect_class_state():
    """The plainly-typed attributes of the five dialect classes (what a caller that passes the class relies on)."""
    out = {}
    for d in RENDER_DIALECTS:
        cls = dialect_class(d)
        st = {}
        for klass in cls.__mro__[:2]:
            for k, v in vars(klass).items():
                if k.startswith('__'):
                    continue
                if v is None or isinstance(v, (bool, int, float, str, tuple, frozenset)):
                    st.setdefault(k, repr(sorted(v, key=repr)) if isinstance(v, frozenset) else repr(v))
        st['server_version_info'] = repr(getattr(cls, 'server_version_info', None))
        out[d] = st
    return out


def plan_catalog_calls(limit, rng):
    """Planner calls under other catalogs (also one without a default namespace): routing statements of C10."""
    from . import c10
    out = []
    for pos, tmpl in c10.POSITIONS.items():
        for tk, (t1, t2) in c10.TARGETS.items():
            sql = tmpl.replace('{T2}', t2).replace('{T}', t1)
            for c in ('many-no-default', 'no-default', 'dicts'):
                out.append(('planc', sql, c))
    rng2 = random.Random(20)
    rng2.shuffle(out)
    return out[:limit]


PREPARE = [
    'select t1.a, t2.c from int1.t1 join int2.t2 on t1.a = t2.a where t1.b = ?',
    'select t1.a, t2.c, t3.b from int1.t1 join int2.t2 on t1.a = t2.a join int1.t3 on t3.b = t1.b',
    'select t.a, m.y from int1.t1 as t join mindsdb.pred as m where t.a = ?',
    'select x.a, y.c, z.b, w.a from int1.t1 as x join int2.t2 as y on x.a = y.a join int1.t3 as z on z.b = x.b join int2.t5 as w on w.a = x.a',
    'select a from int1.t1 where b = ?', 'select * from int1.t1 join int2.t2 on t1.a = t2.a',
]


def all_calls():
    calls = [('parse', s, d) for s, d in PARSE]
    calls += [('prepare', s, None) for s in PREPARE]
    calls += [('plan', s, None) for s in PLAN]
    calls += [('render', s, d) for s, d in RENDER]
    calls += [('renderc', s, d) for s, d in RENDER_CLASS]
    return calls


def do_call(call, catalog=None):
    """Execute one public call; the result is a comparable string."""
    from mindsdb_sql import parse_sql
    kind, sql, d = call
    import warnings
    warnings.filterwarnings('ignore', message='.*does not support CAST.*')
    try:
        if kind == 'parse':
            return 'tree:' + jdump(proj(parse_sql(sql, dialect=d)))
        if kind == 'plan':
            from mindsdb_sql.planner import plan_query
            cat = catalog if catalog is not None else copy.deepcopy(CATALOG)
            plan = plan_query(parse_sql(sql, dialect='mindsdb'), **cat)
            return 'plan:' + jdump(plan_proj(plan))
        if kind == 'prepare':
            # the steps a prepared-statement planner asks the caller to run (in the order it asks), and the statement info
            from mindsdb_sql.planner.query_planner import QueryPlanner
            cat = catalog if catalog is not None else copy.deepcopy(CATALOG)
            pl = QueryPlanner(**cat)
            steps = []
            for st in pl.prepare_steps(parse_sql(sql, dialect='mindsdb')) or []:
                steps.append(jdump(proj(st)))
                try:
                    st.set_result(None)
                except Exception:   # noqa
                    pass
            try:
                info = jdump(proj(pl.get_statement_info()))
            except Exception as e:   # noqa
                info = 'info-exc:%s' % type(e).__name__
            return 'prepare:' + jdump(steps) + info
        if kind == 'render':
            from mindsdb_sql.render.sqlalchemy_render import SqlalchemyRender
            return 'text:' + SqlalchemyRender(d).get_string(parse_sql(sql, dialect='mindsdb'), with_failback=True)
        if kind == 'renderc':
            from mindsdb_sql.render.sqlalchemy_render import SqlalchemyRender
            return 'text:' + SqlalchemyRender(dialect_class(d)).get_string(parse_sql(sql, dialect='mindsdb'), with_failback=True)
        if kind == 'planc':
            from mindsdb_sql.planner import plan_query
            from . import plancorpus
            cat = copy.deepcopy(CATALOG_MANY) if d == 'many-no-default' else plancorpus.catalog(d, with_ts=True)
            plan = plan_query(parse_sql(sql, dialect='mindsdb'), **cat)
            return 'plan:' + jdump(plan_proj(plan))
    except Exception as e:   # noqa
        return 'exc:%s:%s' % (type(e).__name__, str(e))
    return '?'


# ------------------------------------------------------------------ forced schedules
class Gate:
    def __init__(self, schedule):
        self.sched = list(schedule)
        self.cur = 0
        self.cv = threading.Condition()
        self.finished = set()
        self.log = []
        self.keep = []          # strong references: ids must not be reused during the run
        self.index = {}         # thread ident -> call index (1-based)
        self.stuck = False

    def _skip(self):
        while self.cur < len(self.sched) and self.sched[self.cur] in self.finished:
            self.cur += 1

    def point(self, inst, name):
        t = self.index.get(threading.get_ident())
        if t is None:
            return
        with self.cv:
            self._skip()
            while self.cur < len(self.sched) and self.sched[self.cur] != t:
                if not self.cv.wait(timeout=10):
                    self.stuck = True
                    self.cur = len(self.sched)
                    break
                self._skip()
            if self.cur < len(self.sched):
                self.cur += 1
            self.keep.append(inst)
            self.log.append((t, id(inst), name))
            self.cv.notify_all()

    def done(self, t, same):
        with self.cv:
            self.finished.add(t)
            self.log.append((t, 0, 'end:%d' % (1 if same else 0)))
            self._skip()
            self.cv.notify_all()


_GATE = None
_wrapped = False


def _install_method_gates():
    """Scheduling points at method granularity for planner and renderer (harness-level wrappers)."""
    global _wrapped
    if _wrapped:
        return
    _wrapped = True
    import functools
    from mindsdb_sql.planner.query_planner import QueryPlanner
    from mindsdb_sql.planner import plan_join
    from mindsdb_sql.render.sqlalchemy_render import SqlalchemyRender
    classes = [QueryPlanner, SqlalchemyRender]
    for nm in ('PlanJoin', 'PlanJoinTablesQuery', 'PlanJoinTSPredictorQuery'):
        c = getattr(plan_join, nm, None)
        if isinstance(c, type):
            classes.append(c)
    for cls in classes:
        for name, f in list(vars(cls).items()):
            if name.startswith('__') or not callable(f) or isinstance(f, (staticmethod, classmethod, type)):
                continue

            def mk(f, name):
                @functools.wraps(f)
                def w(self, *a, **k):
                    g = _GATE
                    if g is not None:
                        g.point(self, name)
                    return f(self, *a, **k)
                return w
            setattr(cls, name, mk(f, name))


def _sink(parser, name, *a):
    g = _GATE
    if g is not None:
        g.point(parser, name)


def run_schedule(calls, schedule, baseline):
    """Force `schedule` (list of 1-based call indexes) on len(calls) real threads."""
    global _GATE
    import sly.yacc as yacc
    g = Gate(schedule)
    results = [None] * len(calls)
    start = threading.Barrier(len(calls))

    def worker(i):
        g.index[threading.get_ident()] = i + 1
        start.wait()
        r = do_call(calls[i])
        results[i] = r
        g.done(i + 1, r == baseline[calls[i]])
    prev = yacc._verif_sink
    yacc._verif_sink = _sink
    _GATE = g
    ths = [threading.Thread(target=worker, args=(i,)) for i in range(len(calls))]
    try:
        for t in ths:
            t.start()
        for t in ths:
            t.join(60)
    finally:
        _GATE = None
        yacc._verif_sink = prev
    alive = any(t.is_alive() for t in ths)
    # event log -> CallsTrace vocabulary with small instance numbers
    inst_no = {}
    evs = []
    for t, inst, name in g.log:
        if name.startswith('end:'):
            evs.append({'e': 'end', 'c': t, 'i': 0, 'same': int(name[4:])})
        else:
            evs.append({'e': 'use', 'c': t, 'i': inst_no.setdefault(inst, len(inst_no) + 1), 'same': 1})
    return results, evs, g.stuck or alive


def schedules_from_tlc(ctx, cfg, name):
    r = ctx.tlc('Calls', cfg=cfg, workers=4, name=name)
    if r.violated or not r.ok:
        raise MachineryError('Calls design check failed (%s): %s %s' % (cfg, r.violated, r.errors[:2]))
    sch = [tuple(x[0]) for x in r.prints('SCHED')]
    return sorted(set(sch))


# ------------------------------------------------------------------ worker for fresh-process baselines
def worker_main():
    order = json.loads(sys.stdin.read())
    out = {}
    for key, call in order['items']:
        out[key] = do_call(tuple(call))
    sys.stdout.write(json.dumps(out))


def corpus_calls(limit=400):
    """A slice of the test-suite strings as parse calls (all dialects), deterministic order."""
    from .corpus import test_strings
    ss = [s for s in test_strings() if len(s) < 400][:limit]
    out = []
    for i, s in enumerate(ss):
        out.append(('parse', s, ('mindsdb', 'mysql', 'sqlite')[i % 3]))
    # rejected inputs whose messages carry suggestion lists: every proper prefix of some accepted statements
    import re as _re
    from .corpus import lex_spans
    n = 0
    for s in ss:
        sp = lex_spans('mindsdb', _re.sub(r'[\s;]+$', '', s))
        if not sp or len(sp) < 3 or len(sp) > 14:
            continue
        for k in range(1, len(sp)):
            out.append(('parse', ' '.join(s[a:b] for _, a, b in sp[:k]), 'mindsdb'))
        n += 1
        if n >= limit // 6:
            break
    return out


def fresh_process(order, seed):
    e = dict(os.environ)
    e.update({'PYTHONPATH': '%s:%s' % (REPO, VERIF), 'PYTHONHASHSEED': str(seed), 'MINDSDB_SQL_VERIF': '1',
              'PYTHONDONTWRITEBYTECODE': '1'})
    p = subprocess.run([PY, '-c', 'from harness.c20 import worker_main; worker_main()'], input=json.dumps(order),
                       env=e, cwd=str(VERIF), stdout=subprocess.PIPE, stderr=subprocess.PIPE, text=True, timeout=900)
    if p.returncode != 0:
        raise MachineryError('fresh-process worker failed: %s' % p.stderr[-800:])
    return json.loads(p.stdout)


def short(s, n=160):
    return s if len(s) <= n else s[:n] + '...'


def run(ctx):
    dstate0 = dialect_class_state()      # before the first call of this process (a renderer built earlier would already have written)
    thorough = ctx.tier == 'thorough'
    rng = random.Random(ctx.seed + 20)
    # ---- design
    r = ctx.tlc('Calls', cfg='Calls_cached.cfg', workers=4, name='calls_cached', expect_violation=True)
    if 'Isolation' not in r.violated:
        raise MachineryError('spec sharpness lost: Calls does not exhibit the corrupting interleaving for Policy=Cached')
    sch2 = schedules_from_tlc(ctx, 'Calls_fresh_deep.cfg' if thorough else 'Calls_fresh.cfg', 'calls_fresh')
    sch3 = schedules_from_tlc(ctx, 'Calls_fresh3.cfg', 'calls_fresh3')
    ctx.cov['interleavings_2calls'] = len(sch2)
    ctx.cov['interleavings_3calls'] = len(sch3)

    # ---- (a) forced schedules
    _install_method_gates()
    calls = all_calls()
    baseline = {c: do_call(c) for c in calls}
    pairs = []
    kinds = {}
    for c in calls:
        kinds.setdefault(c[0], []).append(c)
    # same-kind pairs (shared instance hazards) and mixed pairs
    for kd, lst in kinds.items():
        for i in range(len(lst)):
            pairs.append((lst[i], lst[(i + 1) % len(lst)]))
    for _ in range(6):
        pairs.append((rng.choice(calls), rng.choice(calls)))
    if not thorough:
        rng.shuffle(pairs)
        pairs = pairs[:10]
    logs = []
    forced = 0
    stuck = 0
    for pa in pairs:
        use = rng.sample(sch2, min(len(sch2), 120 if thorough else 40))
        for s in use:
            res, evs, st = run_schedule(list(pa), s, baseline)
            forced += 1
            stuck += 1 if st else 0
            logs.append({'events': evs})
            for c, got in zip(pa, res):
                if got is not None and got != baseline[c]:
                    ctx.violation('concurrent-result-differs:%s' % c[0],
                                  'a call returned a different result when another call ran interleaved with it',
                                  {'calls': [list(x) for x in pa], 'schedule': list(s), 'call': list(c),
                                   'expected': short(baseline[c]), 'got': short(got or 'None')})
    # error reports: two REJECTED inputs in flight at the same time; each call must report its own tokens.  The rejection
    # happens within the first driver steps, so the 5-step schedules of TLC cover "A is inside its error callback while B
    # runs through its own": all block-shaped schedules A^k B^5 A^(5-k) (and B first) are forced.
    schd = sch2 if thorough else schedules_from_tlc(ctx, 'Calls_fresh_deep.cfg', 'calls_fresh_deep')

    def blocks(sc):
        runs = 1 + sum(1 for i in range(1, len(sc)) if sc[i] != sc[i - 1])
        return runs <= 3
    block_sched = [sc for sc in schd if blocks(sc)]
    rej = [('parse', ') a', 'mindsdb'), ('parse', 'from b where', 'mindsdb'), ('parse', 'select , c', 'mindsdb'),
           ('parse', 'create d', 'mindsdb'), ('parse', ') e', 'mysql'), ('parse', 'from f', 'mysql')]
    base_rej = {c: do_call(c) for c in rej}
    for pa in [(rej[0], rej[1]), (rej[2], rej[3]), (rej[1], rej[2]), (rej[4], rej[5]), (rej[0], rej[0])]:
        for sc in block_sched:
            res, evs, st = run_schedule(list(pa), sc, base_rej)
            forced += 1
            for c, got in zip(pa, res):
                if got is not None and got != base_rej[c]:
                    ctx.violation('concurrent-result-differs:parse-error-report',
                                  'the error reported for a rejected input depends on another rejected input parsed at the same time',
                                  {'calls': [list(x) for x in pa], 'schedule': list(sc), 'call': list(c),
                                   'expected': short(base_rej[c]), 'got': short(got or 'None')})
    ctx.cov['error_report_schedules'] = len(block_sched)
    triples = [tuple(rng.choice(calls) for _ in range(3)) for _ in range(6 if thorough else 2)]
    for tr3 in triples:
        for s in rng.sample(sch3, min(len(sch3), 200 if thorough else 30)):
            res, evs, st = run_schedule(list(tr3), s, baseline)
            forced += 1
            stuck += 1 if st else 0
            logs.append({'events': evs})
            for c, got in zip(tr3, res):
                if got is not None and got != baseline[c]:
                    ctx.violation('concurrent-result-differs:%s' % c[0],
                                  'a call returned a different result when other calls ran interleaved with it',
                                  {'calls': [list(x) for x in tr3], 'schedule': list(s), 'call': list(c),
                                   'expected': short(baseline[c]), 'got': short(got or 'None')})
    if stuck:
        ctx.note('%d forced schedules could not be followed to the end (thread finished early / timeout)' % stuck)
    acc = {}
    LB = 400
    for b0 in range(0, len(logs), LB):
        path = ctx.work / ('callslogs_%d.json' % (b0 // LB))
        dump_json(path, logs[b0:b0 + LB])
        tr = ctx.tlc('CallsTrace', env={'VERIF_TRACES': path}, name='callstrace' + ('_%d' % (b0 // LB) if b0 else ''))
        if not tr.ok:
            raise MachineryError('CallsTrace failed: %s' % tr.errors[:3])
        for x in tr.prints('ACC'):
            acc[b0 + x[0]] = x[1]
        path.unlink()
    for i in range(len(logs)):
        fl = acc.get(i + 1)
        if fl is None:
            raise MachineryError('CallsTrace rejected a combined event log (log %d)' % i)
        if 'InstanceShared' in fl:
            ctx.violation('instance-shared-between-inflight-calls',
                          'two calls in flight at the same time used the same lexer/parser/planner/renderer instance',
                          {'log_index': i, 'events': logs[i]['events'][:40]})
    ctx.cov['traces_validated_against_impl'] += len(acc)
    ctx.cov['forced_schedules'] = forced

    # free-running threads
    import sys as _sys
    old = _sys.getswitchinterval()
    _sys.setswitchinterval(1e-6)
    errs = []

    def free(i):
        r2 = random.Random(ctx.seed * 100 + i)
        for _ in range(60 if thorough else 15):
            c = r2.choice(calls)
            got = do_call(c)
            if got != baseline[c]:
                errs.append((c, got))
    ths = [threading.Thread(target=free, args=(i,)) for i in range(8)]
    for t in ths:
        t.start()
    for t in ths:
        t.join()
    _sys.setswitchinterval(old)
    for c, got in errs[:5]:
        ctx.violation('concurrent-result-differs:%s' % c[0], 'free-running threads: result differs from baseline',
                      {'call': list(c), 'expected': short(baseline[c]), 'got': short(got)})

    # ---- (b) histories and (c) configurations against fresh processes
    extra = corpus_calls(2000 if thorough else 300) + plan_catalog_calls(4000 if thorough else 500, rng)
    canon = {'items': [['c%d' % i, list(c)] for i, c in enumerate(calls)] +
                      [['x%d' % i, list(c)] for i, c in enumerate(extra)]}
    base = fresh_process(canon, 0)
    seeds = [1, 2, 3, 7, 11, 101] if thorough else [1, 2]
    for sd in seeds:
        other = fresh_process(canon, sd)
        for k_, v in base.items():
            if other.get(k_) != v:
                c = calls[int(k_[1:])] if k_[0] == 'c' else extra[int(k_[1:])]
                ctx.violation('hash-seed-dependent:%s' % c[0],
                              'result differs between PYTHONHASHSEED=0 and PYTHONHASHSEED=%d' % sd,
                              {'call': list(c), 'seed0': short(v), 'other': short(other.get(k_) or 'None')})
    # histories in fresh processes: the same calls in reversed and shuffled orders (what a call sees first differs)
    orders = [list(reversed(canon['items']))]
    for _ in range(3 if thorough else 1):
        o = list(canon['items'])
        rng.shuffle(o)
        orders.append(o)
    for o in orders:
        other = fresh_process({'items': o}, 0)
        for k_, v in base.items():
            if other.get(k_) != v:
                c = calls[int(k_[1:])] if k_[0] == 'c' else extra[int(k_[1:])]
                ctx.violation('history-dependent:%s' % c[0],
                              'result depends on which calls ran earlier in the process: differs between two fresh '
                              'processes that run the same calls in different orders',
                              {'call': list(c), 'canonical_order': short(v), 'other_order': short(other.get(k_) or 'None')})
    ctx.cov['fresh_process_orders'] = 1 + len(orders)
    # in-process histories: shuffled orders, failing calls interleaved, ONE shared catalog object
    shared = copy.deepcopy(CATALOG)
    cat0 = jdump(proj(shared))
    n_hist = 0
    for rep in range(3 if thorough else 2):
        order = [('c', i) for i in range(len(calls))] + [('x', i) for i in range(len(extra))]
        rng.shuffle(order)
        for kind, i in order:
            c = calls[i] if kind == 'c' else extra[i]
            got = do_call(c, catalog=shared if c[0] == 'plan' else None)
            n_hist += 1
            exp = base['%s%d' % (kind, i)]
            if got != exp:
                ctx.violation('history-dependent:%s' % c[0],
                              'result depends on earlier calls in the process (or on a catalog object an earlier '
                              'call modified): differs from the fresh-process result',
                              {'call': list(c), 'fresh': short(exp), 'got': short(got), 'repetition': rep})
    dstate1 = dialect_class_state()
    for d_ in RENDER_DIALECTS:
        for k_ in sorted(set(dstate0[d_]) | set(dstate1[d_])):
            if dstate0[d_].get(k_) != dstate1[d_].get(k_):
                ctx.violation('caller-object-modified:dialect-class:%s' % d_,
                              'rendering changed an attribute of the sqlalchemy dialect CLASS (a process-wide object the '
                              'caller may pass or use itself)', {'dialect': d_, 'attribute': k_, 'before': dstate0[d_].get(k_),
                                                                 'after': dstate1[d_].get(k_)})
    ctx.cov['dialect_class_attributes_watched'] = sum(len(v) for v in dstate0.values())
    # renderer histories: ONE SqlalchemyRender object renders a sequence of statements; every text must equal the text a
    # fresh renderer gives for that statement alone
    from mindsdb_sql.render.sqlalchemy_render import SqlalchemyRender
    RSEQ = [["create table db.t (a int, b text)", "create table db.t (a int)", "create table db.t (a int, b text, c int)"],
            ["select a, b from t where a = 1", "select b from t", "select t.a, u.b from t join u on t.a = u.a", "select a from t"],
            ["insert into t (a, b) values (1, 'x')", "insert into t (a) values (2)", "update t set a = 1 where b = 2", "delete from t where a = 3"],
            ["select a as x from t", "select x from (select a as x from t) as s", "select a as x from t"],
            ["select cast(a as foo) from t", "select cast(a as int) from t"],
            ["select `A b`, c from `T t`", "select `a B` from `t T`", "select 1, 1.0, true", "select 1.0, 1, 'true'"]]
    n_rh = 0
    for d in RENDER_DIALECTS:
        for seq in RSEQ + [rng.sample(RENDER_SQL, 3) for _ in range(4 if thorough else 1)]:
            rnd = SqlalchemyRender(d)
            for pos, sql in enumerate(seq):
                def rr(r_):
                    try:
                        return 'text:' + r_.get_string(parse_sql(sql, dialect='mindsdb'), with_failback=True)
                    except Exception as e:   # noqa
                        return 'exc:%s:%s' % (type(e).__name__, str(e)[:200])
                from mindsdb_sql import parse_sql
                got, alone = rr(rnd), rr(SqlalchemyRender(d))
                n_rh += 1
                if got != alone:
                    ctx.violation('history-dependent:render:renderer-reused',
                                  'the text a renderer object gives for a statement depends on what it rendered before',
                                  {'dialect': d, 'history': seq[:pos + 1], 'alone': short(alone), 'in_history': short(got)})
    ctx.cov['renderer_history_renders'] = n_rh
    # planner histories (planhist): several queries on ONE planner object, or fresh planners sharing catalog objects;
    # every plan must equal the plan of the same query planned alone with a fresh copy of the catalog
    from . import planhist
    plan_pool = [c[1] for c in calls if c[0] == 'plan']
    n_ph = 0
    for h in planhist.histories(rng, 120 if thorough else 30, plan_pool):
        for mode in ('planner', 'catalog'):
            out = planhist.run_history(h, copy.deepcopy(CATALOG), mode)
            for pos, (sql, st, plan) in enumerate(out):
                fsql, fst, fplan = planhist.fresh(sql, CATALOG)
                n_ph += 1
                a = (st, jdump(plan_proj(plan)) if plan is not None else '')
                b = (fst, jdump(plan_proj(fplan)) if fplan is not None else '')
                if a != b:
                    ctx.violation('history-dependent:plan:%s' % mode,
                                  'the plan of a query depends on the queries planned before it (%s reused)' %
                                  ('one planner object' if mode == 'planner' else 'the same catalog objects'),
                                  {'history': h[:pos + 1], 'mode': mode, 'alone': short(b[0] + ' ' + b[1]),
                                   'in_history': short(a[0] + ' ' + a[1])})
    # ... the same catalog OBJECTS (model records without integration_name, list and legacy dict form) handed to calls that
    # differ in their scalar options (predictor_namespace): what the first call completes in its records must not reach the second
    for form in ('list', 'dict'):
        recs = [{'name': 'pred'}, {'name': 'pred2', 'to_predict': ['y']}]
        meta_ = recs if form == 'list' else {r_['name']: {k_: v_ for k_, v_ in r_.items() if k_ != 'name'} for r_ in recs}
        for ns1, ns2 in (('proj1', 'proj2'), ('proj2', 'proj1'), ('mindsdb', 'proj1'), ('proj1', 'mindsdb')):
            for tmpl in ('select * from int1.t1 as t join %s.pred as m', 'select * from %s.pred2 where a = 1',
                         'select * from int1.t1 as t join %s.pred as m join %s.pred2 as m2'):
                shared_ = copy.deepcopy(meta_)
                kw1 = dict(integrations=['int1', 'int2'], predictor_metadata=shared_, predictor_namespace=ns1)
                kw2 = dict(integrations=['int1', 'int2'], predictor_metadata=shared_, predictor_namespace=ns2)
                sql1, sql2 = tmpl.replace('%s', ns1), tmpl.replace('%s', ns2)
                planhist.run_history([sql1], kw1, 'catalog')
                (_s, st, plan), = planhist.run_history([sql2], kw2, 'catalog')
                fsql, fst, fplan = planhist.fresh(sql2, dict(kw2, predictor_metadata=copy.deepcopy(meta_)))
                n_ph += 1
                a = (st, jdump(plan_proj(plan)) if plan is not None else '')
                b = (fst, jdump(plan_proj(fplan)) if fplan is not None else '')
                if a != b:
                    ctx.violation('history-dependent:plan:catalog-other-options',
                                  'the plan of a query depends on an earlier call that was given the same catalog objects with another '
                                  'predictor_namespace (the planner wrote into the caller\'s records)',
                                  {'history': [sql1, sql2], 'namespaces': [ns1, ns2], 'catalog_form': form, 'alone': short(b[0] + ' ' + b[1]),
                                   'in_history': short(a[0] + ' ' + a[1])})
    ctx.cov['planner_history_plans'] = n_ph
    if jdump(proj(shared)) != cat0:
        ctx.note('planning wrote into the caller-owned catalog objects (allowed while later results are unchanged)')
        ctx.cov['catalog_written'] = True
    ctx.cov['history_calls'] = n_hist
    ctx.cov['hash_seeds'] = [0] + seeds
    ctx.cov['evaluations'] = forced * 2 + n_hist + len(base) * (1 + len(seeds))
    ctx.sample({'calls': [list(x) for x in pairs[0]], 'schedule': list(sch2[0]), 'events': logs[0]['events'][:12]})
    ctx.sample({'history_call': list(extra[0]), 'fresh_result': short(base['x0'])})
    ctx.assumptions += ['forced interleavings are exhaustive only over the first steps of each call (the abstract '
                        'steps TLC enumerates); the remainder of each call runs unconstrained',
                        'free-running threads and hash seeds are sampled']
    return ctx.finish(exhaustive=False)


def replay(ctx, path):
    rec = json.load(open(path))['replay']
    print(json.dumps(rec, indent=1))
    return 0
