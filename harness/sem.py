"""Real AST -> the "semantic form" read by spec/SQLSem.tla (see the module header there).
Anything outside the modelled fragment raises Unsupported: the case is counted, never judged."""

NULL = -99
NONE = {'e': 'none'}


class Unsupported(Exception):
    pass


def _name(node):
    return type(node).__name__


def ident_parts(node):
    parts = []
    for p in node.parts:
        if _name(p) == 'Star':
            parts.append('*')
        else:
            parts.append(str(p))
    return parts


def alias_of(node):
    a = getattr(node, 'alias', None)
    if a is None:
        return ''
    # an alias is ONE name; a several-part alias (only a defect produces one) must not look like a one-part name with dots
    return '\u241f'.join(ident_parts(a)) if _name(a) == 'Identifier' else str(a)


def expr(node, opts=None):
    """opts: dict(params=True) allows Parameter(Result) in IN lists."""
    k = _name(node)
    if k == 'Identifier':
        ps = ident_parts(node)
        if ps[-1] == '*':
            return {'e': 'star', 't': ps[-2] if len(ps) > 1 else ''}
        if len(ps) == 1:
            return {'e': 'col', 't': '', 'c': ps[0]}
        if len(ps) == 2:
            return {'e': 'col', 't': ps[0], 'c': ps[1]}
        if len(ps) == 3:
            # integration.table.column: the qualifier is not part of the relational model
            return {'e': 'col', 't': ps[1], 'c': ps[2], 'q3': ps[0]}
        raise Unsupported('identifier with %d parts' % len(ps))
    if k == 'Star':
        return {'e': 'star', 't': ''}
    if k == 'Constant':
        v = node.value
        if isinstance(v, bool):
            return {'e': 'const', 'v': 1 if v else 0}
        if isinstance(v, int) and abs(v) < 1000:
            return {'e': 'const', 'v': v}
        if isinstance(v, str):
            import re as _re
            m = _re.fullmatch(r'\$var\[(\w+)\]', v)
            if m:
                return {'e': 'var', 'c': m.group(1)}
        raise Unsupported('constant %r' % (v,))
    if k == 'NullConstant':
        return {'e': 'const', 'v': NULL}
    if k == 'UnaryOperation':
        op = str(node.op).lower()
        if op not in ('not', '-'):
            raise Unsupported('unary ' + op)
        return {'e': 'un', 'op': op, 'a': expr(node.args[0], opts)}
    if k == 'BetweenOperation':
        return {'e': 'between', 'neg': False, 'a': expr(node.args[0], opts), 'lo': expr(node.args[1], opts),
                'hi': expr(node.args[2], opts)}
    if k == 'BinaryOperation':
        op = ' '.join(str(node.op).lower().split())
        a, b = node.args
        if op in ('is', 'is not'):
            if _name(b) == 'NullConstant':
                return {'e': 'isnull', 'neg': op == 'is not', 'a': expr(a, opts)}
            raise Unsupported('IS non-null')
        if op in ('in', 'not in'):
            neg = op == 'not in'
            kb = _name(b)
            if kb == 'Tuple':
                return {'e': 'in', 'neg': neg, 'a': expr(a, opts), 'items': [expr(x, opts) for x in b.items]}
            if kb in ('Select', 'Union', 'Intersect', 'Except'):
                return {'e': 'insub', 'neg': neg, 'a': expr(a, opts), 'q': query(b, opts)}
            if kb == 'Parameter':
                n = _result_num(b)
                return {'e': 'inparam', 'neg': neg, 'a': expr(a, opts), 'n': n}
            raise Unsupported('IN ' + kb)
        if op in ('and', 'or', '=', '!=', '<>', '<', '<=', '>', '>=', '+', '-', '*', '/', '%'):
            return {'e': 'bin', 'op': op, 'a': expr(a, opts), 'b': expr(b, opts)}
        raise Unsupported('operator ' + op)
    if k == 'Function':
        f = str(node.op).lower()
        if f in ('count', 'sum', 'min', 'max') and len(node.args) == 1 and getattr(node, 'from_arg', None) is None:
            a = node.args[0]
            star = _name(a) == 'Star'
            return {'e': 'agg', 'f': f, 'a': NONE if star else expr(a, opts), 'star': star,
                    'distinct': bool(getattr(node, 'distinct', False))}
        raise Unsupported('function ' + f)
    if k in ('Select', 'Union', 'Intersect', 'Except'):
        return {'e': 'scalar', 'q': query(node, opts)}
    if k == 'Exists':
        return {'e': 'exists', 'neg': False, 'q': query(node.args[0], opts)}
    if k == 'NotExists':
        return {'e': 'exists', 'neg': True, 'q': query(node.args[0], opts)}
    if k == 'Case':
        return {'e': 'case', 'arg': expr(node.arg, opts) if getattr(node, 'arg', None) is not None else NONE,
                'rules': [[expr(w, opts), expr(t, opts)] for w, t in node.rules],
                'default': expr(node.default, opts) if node.default is not None else NONE}
    if k == 'TypeCast':
        if str(node.type_name).lower() not in ('int', 'integer', 'bigint'):
            raise Unsupported('cast to ' + str(node.type_name))
        return {'e': 'cast', 'a': expr(node.arg, opts)}
    if k == 'Parameter':
        raise Unsupported('bare parameter')
    if k == 'Latest':
        # the LATEST marker is resolved by the planner; where it survives into a query it is a value nothing can evaluate
        return {'e': 'latest'}
    raise Unsupported('expression ' + k)


def _result_num(param):
    v = getattr(param, 'value', None)
    if _name(v) == 'Result':
        n = v.step_num
        try:
            return int(n)
        except (TypeError, ValueError):
            raise Unsupported('result ref %r' % (n,))
    raise Unsupported('placeholder')


JOIN_KINDS = {'join': 'inner', 'inner join': 'inner', 'left join': 'left', 'left outer join': 'left',
              'right join': 'right', 'right outer join': 'right', 'full join': 'full', 'full outer join': 'full',
              'cross join': 'cross', ',': 'cross'}


def from_item(node, opts=None):
    k = _name(node)
    if k == 'Identifier':
        ps = ident_parts(node)
        if len(ps) == 1:
            return {'f': 'table', 'db': '', 'name': ps[0], 'as': alias_of(node)}
        if len(ps) == 2:
            return {'f': 'table', 'db': ps[0].lower(), 'name': ps[1], 'as': alias_of(node)}
        raise Unsupported('table name with %d parts' % len(ps))
    if k == 'Join':
        jt = ' '.join(str(node.join_type).lower().split())
        if getattr(node, 'implicit', False):
            jt = ','
        if jt not in JOIN_KINDS:
            raise Unsupported('join type ' + jt)
        on = expr(node.condition, opts) if node.condition is not None else NONE
        return {'f': 'join', 'kind': JOIN_KINDS[jt], 'l': from_item(node.left, opts), 'r': from_item(node.right, opts),
                'on': on}
    if k in ('Select', 'Union', 'Intersect', 'Except'):
        return {'f': 'sub', 'q': query(node, opts), 'as': alias_of(node)}
    raise Unsupported('from item ' + k)


def _int_const(node):
    if node is None:
        return -1
    v = getattr(node, 'value', None)
    if isinstance(v, int) and not isinstance(v, bool) and 0 <= v < 100:
        return v
    raise Unsupported('limit/offset %r' % (v,))


def query(node, opts=None):
    k = _name(node)
    if k in ('Union', 'Intersect', 'Except'):
        return {'q': 'setop', 'op': k.lower(), 'all': not bool(getattr(node, 'unique', True)),
                'l': query(node.left, opts), 'r': query(node.right, opts)}
    if k != 'Select':
        raise Unsupported('query ' + k)
    if getattr(node, 'mode', None) is not None or getattr(node, 'using', None):
        raise Unsupported('select modifiers')
    targets = []
    for t in node.targets:
        targets.append({'x': expr(t, opts), 'as': alias_of(t)})
    order = []
    for o in (node.order_by or []):
        d = str(getattr(o, 'direction', '') or '').lower()
        nl = str(getattr(o, 'nulls', '') or '').lower()
        order.append({'x': expr(o.field, opts), 'dir': 'desc' if 'desc' in d else 'asc',
                      'nulls': 'first' if 'first' in nl else ('last' if 'last' in nl else '')})
    ctes = []
    for c in (node.cte or []):
        ctes.append({'name': '.'.join(ident_parts(c.name)), 'q': query(c.query, opts)})
    return {'q': 'select', 'distinct': bool(node.distinct), 'targets': targets,
            'from': from_item(node.from_table, opts) if node.from_table is not None else {'f': 'none'},
            'where': expr(node.where, opts) if node.where is not None else NONE,
            'group': [expr(g, opts) for g in (node.group_by or [])],
            'having': expr(node.having, opts) if node.having is not None else NONE,
            'order': order, 'limit': _int_const(node.limit), 'offset': _int_const(node.offset), 'ctes': ctes}


def dml(node):
    """Insert / Update / Delete -> the DML record of SQLSem.ApplyDml."""
    k = _name(node)
    if k == 'Insert':
        tab = ident_parts(node.table)[-1]
        cols = [ident_parts(c)[-1] if _name(c) == 'Identifier' else str(getattr(c, 'name', c)) for c in (node.columns or [])]
        if node.from_select is not None:
            return {'d': 'insert-select', 'table': tab, 'cols': cols, 'q': query(node.from_select)}
        return {'d': 'insert', 'table': tab, 'cols': cols, 'rows': [[expr(x) for x in row] for row in node.values]}
    if k == 'Update':
        if node.from_select is not None:
            raise Unsupported('update from')
        return {'d': 'update', 'table': ident_parts(node.table)[-1],
                'set': [[str(c), expr(v)] for c, v in node.update_columns.items()],
                'where': expr(node.where) if node.where is not None else NONE}
    if k == 'Delete':
        return {'d': 'delete', 'table': ident_parts(node.table)[-1], 'where': expr(node.where) if node.where is not None else NONE}
    raise Unsupported('dml ' + k)


def tables_of(q, acc=None):
    """All (db, name) table references of a semantic query (for choosing the databases to enumerate)."""
    if acc is None:
        acc = []

    def walk(o):
        if isinstance(o, dict):
            if o.get('f') == 'table':
                acc.append((o['db'], o['name']))
            for v in o.values():
                walk(v)
        elif isinstance(o, list):
            for v in o:
                walk(v)
    walk(q)
    return acc


# ------------------------------------------------------------------ plan steps -> "eval" steps (A.4 meanings)
def df(n, as_=''):
    return {'f': 'df', 'n': n, 'as': as_ or ''}


def star_select(frm):
    return {'q': 'select', 'distinct': False, 'targets': [{'x': {'e': 'star', 't': ''}, 'as': ''}], 'from': frm,
            'where': NONE, 'group': [], 'having': NONE, 'order': [], 'limit': -1, 'offset': -1, 'ctes': []}


def step_num(res):
    n = getattr(res, 'step_num', None)
    try:
        return int(n)
    except (TypeError, ValueError):
        raise Unsupported('step ref %r' % (n,))


def _inside_integration(q):
    """A query shipped to an integration is evaluated THERE: a leftover integration qualifier on a column or a table
    names nothing the integration knows (it becomes an unresolvable reference = ERR in SQLSem)."""
    def walk(o):
        if isinstance(o, dict):
            if o.get('e') == 'col' and 'q3' in o:
                o['t'] = '?unstripped-qualifier:' + o['q3']
                q['unstripped'] = 1
            if o.get('e') == 'latest':
                q['unstripped'] = 1          # LATEST shipped to an integration: it cannot evaluate it
            if o.get('f') == 'table' and o.get('db'):
                o['name'] = '?unstripped-qualifier:%s.%s' % (o['db'], o['name'])
                q['unstripped'] = 1
            for v in list(o.values()):
                walk(v)
        elif isinstance(o, list):
            for v in o:
                walk(v)
    walk(q)
    return q


def _fetch_sub(s):
    if _name(s) != 'FetchDataframeStep' or getattr(s, 'raw_query', None):
        raise Unsupported('container sub-step ' + _name(s))
    return {'defdb': str(s.integration), 'q': _inside_integration(query(s.query))}


def plan_steps(plan, upto=None):
    """-> list of {'kind', 'defdb', 'q'} in plan order; raises Unsupported for steps outside the model.
    upto: stop before the first step of that class name."""
    out = []
    for i, s in enumerate(plan.steps):
        k = _name(s)
        if upto and k == upto:
            break
        if getattr(s, 'step_num', i) != i:
            raise Unsupported('step numbering')
        if k == 'MultipleSteps':
            out.append({'kind': 'multiple', 'defdb': '', 'subs': [_fetch_sub(x) for x in s.steps]})
            continue
        if k == 'MapReduceStep':
            inner = s.step
            subs = [_fetch_sub(x) for x in inner.steps] if _name(inner) == 'MultipleSteps' else [_fetch_sub(inner)]
            out.append({'kind': 'mapreduce', 'defdb': '', 'values': step_num(s.values), 'subs': subs})
            continue
        if k == 'FetchDataframeStep':
            if getattr(s, 'raw_query', None):
                raise Unsupported('raw query')
            out.append({'kind': 'fetch', 'defdb': str(s.integration), 'q': _inside_integration(query(s.query))})
        elif k == 'SubSelectStep':
            q = query(s.query)
            if q['from'].get('f') != 'none':
                raise Unsupported('subselect with own FROM')
            q['from'] = df(step_num(s.dataframe), s.table_name)
            out.append({'kind': 'subselect', 'defdb': '', 'q': q})
        elif k == 'QueryStep':
            q = query(s.query)
            if q['from'].get('f') != 'none':
                raise Unsupported('query step with own FROM')
            q['from'] = df(step_num(s.from_table))
            out.append({'kind': 'query', 'defdb': '', 'q': q})
        elif k == 'JoinStep':
            j = s.query
            jt = ' '.join(str(j.join_type).lower().split())
            if jt not in JOIN_KINDS:
                raise Unsupported('join type ' + jt)
            on = expr(j.condition) if j.condition is not None else NONE
            frm = {'f': 'join', 'kind': JOIN_KINDS[jt], 'l': df(step_num(s.left)), 'r': df(step_num(s.right)), 'on': on}
            out.append({'kind': 'join', 'defdb': '', 'q': star_select(frm)})
        elif k == 'UnionStep':
            op = str(getattr(s, 'operation', 'union') or 'union').lower()
            out.append({'kind': 'union', 'defdb': '',
                        'q': {'q': 'setop', 'op': op, 'all': not bool(s.unique),
                              'l': star_select(df(step_num(s.left))), 'r': star_select(df(step_num(s.right)))}})
        elif k == 'LimitOffsetStep':
            q = star_select(df(step_num(s.dataframe)))
            q['limit'] = _int_const(s.limit) if s.limit is not None else -1
            q['offset'] = _int_const(s.offset) if s.offset is not None else -1
            out.append({'kind': 'limit', 'defdb': '', 'q': q})
        elif k == 'ProjectStep':
            q = star_select(df(step_num(s.dataframe)))
            q['targets'] = [{'x': expr(c), 'as': alias_of(c)} for c in s.columns]
            out.append({'kind': 'project', 'defdb': '', 'q': q})
        else:
            raise Unsupported('step ' + k)
    return out
