"""C03 -- operators group by standard SQL precedence and associativity in every dialect.

spec        : ExprPrec.tla enumerates every operator tree with N operator nodes, prints it with the
              parentheses the reference grouping needs (or with every compound operand wrapped), gives
              the expected tree with parentheses flags and its 3-valued value on {NULL,0,1,2}^3.
oracle check: sqlite3 evaluates the printed text on the same environments and must equal Eval
              (the reference table is checked against a reference SQL engine before it judges).
replay      : every printed text x 7 expression contexts x 3 dialects is parsed by the real library and
              the tree (ops, operand order, parentheses flags), read by reflection, must equal the spec's.
"""
import json
import random
import sqlite3

from .common import MachineryError
from .corpus import pmap
from .tlaparse import find_prints

DIALECTS = ('mindsdb', 'mysql', 'sqlite')
CONTEXTS = {
    'select': ('SELECT %s FROM t', lambda q: q.targets[0]),
    'where': ('SELECT x FROM t WHERE %s', lambda q: q.where),
    'on': ('SELECT x FROM t JOIN u ON %s', lambda q: q.from_table.condition),
    'having': ('SELECT x FROM t GROUP BY x HAVING %s', lambda q: q.having),
    'func': ('SELECT f(%s) FROM t', lambda q: q.targets[0].args[0]),
    'case_when': ('SELECT CASE WHEN %s THEN 1 ELSE 0 END FROM t', lambda q: q.targets[0].rules[0][0]),
    'case_then': ('SELECT CASE WHEN x THEN %s ELSE 0 END FROM t', lambda q: q.targets[0].rules[0][1]),
}


def text_of(tokens):
    out = []
    k = 0
    for t in tokens:
        if t == 'L':
            k += 1
            out.append('c%d' % (((k - 1) % 3) + 1))
        else:
            out.append(t)
    return ' '.join(out)


def norm(node):
    """Real AST node -> the spec's Flag() shape, by attribute reflection."""
    cls = type(node).__name__
    p = bool(getattr(node, 'parentheses', False))
    if cls in ('Identifier', 'Constant'):
        return ['leaf', p]          # a literal operand groups like a column operand
    if cls == 'UnaryOperation':
        op = str(node.op).upper()
        return ['un', '-' if op == '-' else op, p, norm(node.args[0])]
    if cls == 'BetweenOperation':
        return ['btw', False, p, norm(node.args[0]), norm(node.args[1]), norm(node.args[2])]
    if cls == 'BinaryOperation':
        op = ' '.join(str(node.op).upper().split())
        a = node.args
        if op in ('IN', 'NOT IN') and type(a[1]).__name__ == 'Tuple':
            return ['in', op == 'NOT IN', p, norm(a[0])]
        if op in ('IS', 'IS NOT') and type(a[1]).__name__ == 'NullConstant':
            return ['isnull', op == 'IS NOT', p, norm(a[0])]
        return ['bin', op, p, norm(a[0]), norm(a[1])]
    return ['?', cls]


def leaf_names(node, out):
    cls = type(node).__name__
    if cls == 'Identifier':
        out.append('.'.join(str(x) for x in node.parts))
    elif cls == 'Tuple':
        for x in node.items:
            leaf_names(x, out)
    elif hasattr(node, 'args'):
        for x in node.args:
            leaf_names(x, out)
    return out


def ops_in(flag, acc):
    if flag[0] in ('un', 'bin'):
        acc.add(('NOT' if flag[1] == 'NOT' else flag[1]) if flag[0] == 'bin' else 'u' + flag[1])
    elif flag[0] in ('btw', 'in', 'isnull'):
        acc.add(flag[0] + ('-not' if flag[1] else ''))
    for x in flag[3:] if flag[0] != 'leaf' else []:
        if isinstance(x, list):
            ops_in(x, acc)
    return acc


def _parse_case(args):
    text, expected, ctxs = args
    from mindsdb_sql import parse_sql
    res = []
    for d in DIALECTS:
        for c in ctxs:
            tmpl, getter = CONTEXTS[c]
            sql = tmpl % text
            try:
                q = parse_sql(sql, dialect=d)
                node = getter(q)
                got = norm(node)
                names = leaf_names(node, [])
                res.append((d, c, 'ok', got, names))
            except Exception as e:   # noqa
                res.append((d, c, 'exc:' + type(e).__name__, None, None))
    return res


def classify(exp, got):
    """Input-side coordinate of a grouping difference: (parent op class, child op class, side) at the first
    position where the trees differ, walking the EXPECTED tree."""
    def opclass(f):
        if f[0] == 'leaf':
            return 'leaf'
        if f[0] == 'un':
            return 'u' + f[1]
        if f[0] == 'bin':
            o = f[1]
            if o in ('*', '/', '%'):
                return 'mul(%s)' % o
            if o in ('+', '-'):
                return 'add'
            if o in ('AND', 'OR'):
                return o
            if o in ('=', '!=', '<>'):
                return 'eq'
            if o in ('LIKE', 'NOT LIKE'):
                return 'like'
            return 'cmp'
        return f[0]
    if got is None or got[0] == '?':
        return 'unparsed'
    if exp[0] != got[0] or (exp[0] != 'leaf' and exp[1] != got[1]):
        return 'top:%s-vs-%s' % (opclass(exp), opclass(got))
    if exp[0] == 'leaf':
        return 'paren-flag:leaf'
    if exp[2] != got[2]:
        return 'paren-flag:%s' % opclass(exp)
    kids_e, kids_g = exp[3:], got[3:]
    for i, (e, g) in enumerate(zip(kids_e, kids_g)):
        if e != g:
            sub = classify(e, g)
            if sub.startswith('top:'):
                return 'under:%s[%d]:%s' % (opclass(exp), i, sub[4:])
            return sub
    return 'other'


def run(ctx):
    thorough = ctx.tier == 'thorough'
    rng = random.Random(ctx.seed + 3)
    jobs = [('ExprPrec_all1.cfg', None), ('ExprPrec_all2.cfg', None), ('ExprPrec_full2.cfg', None)]
    jobs.append(('ExprPrec_all3.cfg', None) if thorough else ('ExprPrec_reps3.cfg', 2500))
    cases = []
    for cfg, sample in jobs:
        r = ctx.tlc('ExprPrec', cfg=cfg, name=cfg[:-4], timeout=3000)
        if r.violated or not r.ok:
            raise MachineryError('ExprPrec %s: %s %s' % (cfg, r.violated, r.errors[:2]))
        got = [(v[1], v[2], v[3]) for v in find_prints(r.out, 'CASE')]
        if len(got) != r.distinct:
            raise MachineryError('ExprPrec %s: parsed %d cases of %d states' % (cfg, len(got), r.distinct))
        if sample and len(got) > sample:
            rng.shuffle(got)
            got = got[:sample]
        cases += [(cfg[9:-4], t, f, e) for t, f, e in got]
    # ---- oracle check against sqlite3
    con = sqlite3.connect(':memory:')
    con.execute('create table env (id integer primary key, c1, c2, c3)')
    vals = [None, 0, 1, 2]
    for i in range(64):
        con.execute('insert into env values (?,?,?,?)', (i + 1, vals[i // 16], vals[(i // 4) % 4], vals[i % 4]))
    n_oracle = 0
    for tag, toks, flag, ev in cases:
        text = text_of(toks)
        try:
            rows = [r_[0] for r_ in con.execute('select %s from env order by id' % text)]
        except sqlite3.Error as e:
            raise MachineryError('sqlite3 rejects the spec-printed text %r: %s' % (text, e))
        exp = [None if v == -99 else v for v in ev]
        if rows != exp:
            i = next(j for j in range(64) if rows[j] != exp[j])
            raise MachineryError('oracle disagreement (spec bug, not a finding): %r env#%d sqlite=%r spec=%r'
                                 % (text, i + 1, rows[i], exp[i]))
        n_oracle += 1
    ctx.cov['oracle_crosschecked_against_sqlite3'] = n_oracle

    # ---- which operators does each dialect support at all (single-operator probes)?  A dialect that rejects
    # an operator outright is not judged on trees containing it (the property quantifies over what it parses).
    singles = [c for c in cases if c[0] == 'all1']
    sres = pmap(_parse_case, [(text_of(c[1]), c[2], ['select']) for c in singles], chunksize=8)
    unsupported = {d: set() for d in DIALECTS}
    for c, rs in zip(singles, sres):
        for d, cx, st, got, names in rs:
            if st != 'ok':
                unsupported[d] |= ops_in(c[2], set())
    ctx.cov['operators_rejected_outright'] = {d: sorted(v) for d, v in unsupported.items()}
    # expression contexts a dialect does not have at all (e.g. no CASE in the sqlite dialect)
    # (a context counts as missing only if the dialect rejects EVERY probe expression in it)
    nocontext = {d: set(CONTEXTS) for d in DIALECTS}
    for probe in ('c1 = c2', 'c1 + c2 > 1', '(c1)', 'c1 is null', 'not c1'):
        for d, c, st, got, names in _parse_case((probe, ['leaf', False], list(CONTEXTS))):
            if st == 'ok':
                nocontext[d].discard(c)
    ctx.cov['contexts_rejected_outright'] = {d: sorted(v) for d, v in nocontext.items()}

    # ---- replay into the three parsers
    ctx_names = list(CONTEXTS)
    work = []
    for i, (tag, toks, flag, ev) in enumerate(cases):
        if tag in ('all1', 'all2') or thorough:
            cx = ctx_names
        else:
            cx = ['select', ctx_names[1 + i % (len(ctx_names) - 1)]]
        work.append((text_of(toks), flag, cx))
    # white-space layouts: the same token sequence with other gaps (also INSIDE the two-word operators IS NOT, NOT IN,
    # NOT LIKE ...).  Grouping must not depend on the layout; a layout a dialect rejects is not judged.
    import re as _re
    multi = _re.compile(r'\b(IS NOT|NOT IN|NOT LIKE|NOT BETWEEN|IS NULL|IS NOT NULL|NOT EXISTS|NOT REGEXP|NOT RLIKE)\b')
    base_n = len(cases)
    for i in range(base_n):
        tag, toks, flag, ev = cases[i]
        text = text_of(toks)
        if multi.search(text) or i % (3 if thorough else 9) == 0:
            for k, gap in enumerate(('  ', '\n\t', ' \n  ')):
                if k == 2 and not thorough:
                    continue
                cases.append((tag + '~layout', toks, flag, ev))
                work.append((text.replace(' ', gap), flag, ['select']))
            # ... and comments as gaps (a comment is white space to every SQL reader), between all tokens and only inside
            # the two-word operators
            if multi.search(text):
                for gap in (' /* c */ ', ' -- c\n ', '/**/'):
                    cases.append((tag + '~layout', toks, flag, ev))
                    work.append((text.replace(' ', gap), flag, ['select']))
                    cases.append((tag + '~layout', toks, flag, ev))
                    work.append((multi.sub(lambda m_: m_.group(0).replace(' ', gap), text), flag, ['select', 'where']))
    # literal operands: the same trees with numbers in place of (some) columns.  Trees with a unary minus are left out: the
    # grammars fold `- <number>` into a negative constant, which is C04's subject.
    def has_uminus(f):
        return isinstance(f, list) and ((f[0] == 'un' and f[1] == '-') or any(has_uminus(x) for x in f[3:] if isinstance(x, list)))
    for i in range(base_n):
        tag, toks, flag, ev = cases[i]
        if has_uminus(flag) or (not thorough and i % 2):
            continue
        nl = sum(1 for t in toks if t == 'L')
        for mode in ('first', 'all'):
            out, k = [], 0
            for t in toks:
                if t == 'L':
                    k += 1
                    out.append(str((k - 1) % 3) if (mode == 'all' or k == 1) else 'c%d' % (((k - 1) % 3) + 1))
                else:
                    out.append(t)
            cases.append((tag + '~literal', toks, flag, ev))
            work.append((' '.join(out), flag, ['select', 'where']))
    results = pmap(_parse_case, work, chunksize=32)
    n_eval = n_skip = 0
    for (tag, toks, flag, ev), (text, _, cx), rs in zip(cases, work, results):
        used = ops_in(flag, set())
        nleaves = sum(1 for t in toks if t == 'L')
        expnames = ['c%d' % ((k % 3) + 1) for k in range(nleaves)]
        for d, c, st, got, names in rs:
            if used & unsupported[d] or c in nocontext[d]:
                n_skip += 1
                continue
            n_eval += 1
            if st != 'ok' and tag.endswith(('~layout', '~literal')):
                n_skip += 1
                continue
            if st != 'ok':
                ctx.violation('rejected:%s:%s' % (d, st),
                              'an expression built only from operators the dialect supports is rejected',
                              {'expr': text, 'dialect': d, 'context': c, 'status': st})
                continue
            if got != flag:
                ctx.violation('grouping:%s:%s' % (d, classify(flag, got)),
                              'the parser groups the expression differently from SQL precedence/associativity '
                              '(or loses/invents parentheses)',
                              {'expr': text, 'dialect': d, 'context': c, 'expected': flag, 'got': got})
            elif names != expnames and not tag.endswith('~literal'):
                ctx.violation('operand-order:%s' % d, 'operands are not in textual order',
                              {'expr': text, 'dialect': d, 'context': c, 'expected': expnames, 'got': names})
    ctx.cov['evaluations'] = n_eval
    ctx.cov['skipped_unsupported_operator'] = n_skip
    ctx.cov['trees'] = len(cases)
    ctx.cov['traces_validated_against_impl'] = n_eval
    for tag, toks, flag, ev in cases[::max(1, len(cases) // 6)]:
        ctx.sample({'set': tag, 'text': text_of(toks), 'expected_tree': flag})
    ctx.assumptions += ['leaves are column references; constants under unary minus are covered by C04',
                        'N<=2 exhaustive over all operators (minimal and full parentheses); N=3 ' +
                        ('exhaustive over all operators' if thorough else 'sampled over tier representatives'),
                        'operators a dialect rejects in a single-operator expression are not judged for that dialect']
    return ctx.finish(exhaustive=thorough)


def replay(ctx, path):
    rec = json.load(open(path))['replay']
    from mindsdb_sql import parse_sql
    for c, (tmpl, getter) in CONTEXTS.items():
        if c == rec.get('context'):
            q = parse_sql(tmpl % rec['expr'], dialect=rec['dialect'])
            print('got     ', norm(getter(q)))
            print('expected', rec.get('expected'))
    return 0
