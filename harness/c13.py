"""C13 -- the AST walker visits every table, expression and subquery once, in order.

spec        : Traversal.tla -- Schema (child slots of every node kind in textual order with table/target
              flags), Expected(t) (pre-order visit sequence), Replace(t, id), Judge(t, got).
spec->code  : TraversalGen enumerates every node kind in every slot of every kind (depth 2; depth 3 in the
              thorough tier); the harness builds the real AST for each, runs the real query_traversal with a
              recording visitor, then once per visit position with a replacing visitor.
code->spec  : the same for trees produced by the parsers (test-suite statements + crafted statements);
              the recorded sequences / resulting trees are judged by TLC (TraversalTrace).
Defect coordinates are (parent kind, slot, defect class): a finite exact vocabulary.
"""
import json
import random

from .common import MachineryError, dump_json
from .tlaparse import find_prints

CRAFTED = [
    "select a, b + 1, f(c, d) from t1 where x = 1 and y in (1, 2) group by a, b having count(*) > 1 order by a, b desc",
    "select * from t1 join t2 on t1.a = t2.a left join t3 on t2.b = t3.b where t1.c > 2",
    "select case a when 1 then 'x' when 2 then 'y' else 'z' end, case when b > 1 then c else d end from t",
    "select substring(a from 2), cast(b as int), c::text from t",
    "select sum(a) over (partition by b, c order by d, e) from t", "select count(*) over () from t", "select sum(a) over (order by d) from t",
    "select sum(a) over (partition by b) from t", "select case when a then b end from t", "select case a when 1 then 2 end from t",
    "with c1 as (select a from t1), c2 as (select b from t2) select * from c1 join c2 on c1.a = c2.b",
    "select * from t1 where a in (select b from t2 where c = 1) and exists (select 1 from t3)",
    "select * from (select a from t1 where b = 1) as s where s.a > (select max(c) from t2)",
    "select a from t1 union select b from t2",
    "select a from t1 intersect select b from t2 except select c from t3",
    "insert into t1 (a, b) values (1, 'x'), (2, ?)",
    "insert into t1 (a) select b from t2 where c = ?",
    "update t1 set a = b + 1, c = ? where d = ? and e in (select f from t2)",
    "update t1 set a = s.x from (select x, y from t2) as s where t1.id = s.y",
    "delete from t1 where a = 1 and b in (select c from t2)",
    "create table t1 as select a, b from t2 where c = 1",
    "create table int1.t1 (select a from t2)",
    "select a between 1 and b + 2, not c, -d, (e, f) from t",
    "select * from t1 where a = ? and b like ? limit 3 offset 1",
    "select * from int1 (select * from x) as q join t2 on q.a = t2.a",
    "select count(*) from t where b = ? having count(*) > ?",
    "select max(x) from t having max(x) > (select avg(y) from limits)",
    "select a, b.*, c from t order by a",
]


def parse_schema(out):
    for v in find_prints(out, 'SCHEMA'):
        return {k: [(s[0], s[1]) for s in slots] for k, slots in v[1].items()}
    raise MachineryError('schema not printed by TLC')


# ------------------------------------------------------------------ projection real AST -> spec tree
class Projector:
    def __init__(self, schema):
        self.schema = schema
        self.idmap = {}       # id(obj) -> spec id
        self.keep = []
        self.next = 1
        self.unsupported = set()

    def children(self, node, kind):
        from mindsdb_sql.parser.ast.base import ASTNode
        out = []
        for name, shape in self.schema.get(kind, []):
            v = getattr(node, name, None)
            items = []
            if v is None:
                pass
            elif shape == 'one':
                items = [v]
            elif shape == 'list':
                items = list(v)
            elif shape == 'rows':
                for row in v:
                    items.extend(list(row))
            elif shape == 'dictvals':
                items = list(v.values())
            elif shape == 'rules':
                for pair in v:
                    items.extend(list(pair))
            elif shape == 'ctes':
                items = [('cte', e) for e in v]
            out.append((name, shape, items))
        return out

    def tree(self, node, assign=True):
        from mindsdb_sql.parser.ast.base import ASTNode
        kind = type(node).__name__
        if getattr(node, '_verif_marker', False):
            return {'k': 'Marker', 'id': -getattr(node, '_verif_marker_n', 0), 'ch': []}
        if id(node) not in self.idmap:
            if not assign:
                return {'k': 'New:' + kind, 'id': -1, 'ch': []}
            self.idmap[id(node)] = self.next
            self.keep.append(node)
            self.next += 1
        t = {'k': kind, 'id': self.idmap[id(node)], 'ch': []}
        if kind not in self.schema:
            if isinstance(node, ASTNode):
                for an, av in vars(node).items():
                    if isinstance(av, ASTNode) and not an.startswith('_'):
                        self.unsupported.add(kind + '.' + an)
            return t
        for name, shape, items in self.children(node, kind):
            kids = []
            for it in items:
                if shape == 'ctes':
                    e = it[1]
                    if type(e).__name__ == 'CommonTableExpression':
                        kids.append(self.tree(e.query, assign))
                    else:
                        kids.append({'k': 'CteEntryReplacedBy:' + ('Marker' if getattr(e, '_verif_marker', False)
                                                                    else type(e).__name__), 'id': -2, 'ch': []})
                elif isinstance(it, (ASTNode,)) or getattr(it, '_verif_marker', False):
                    kids.append(self.tree(it, assign))
                elif isinstance(it, list):
                    kids.append({'k': 'List', 'id': -3, 'ch': []})
                # plain python values (str, int, None) are not nodes
            t['ch'].append([name, kids])
        return t


# ------------------------------------------------------------------ builder spec tree -> real AST
def build(t, idmap, keep):
    from mindsdb_sql.parser import ast as A
    from mindsdb_sql.parser.ast import (Identifier, Constant, Star, Parameter, Select, Union, Intersect, Except, Join,
                                        BinaryOperation, UnaryOperation, BetweenOperation, Function, WindowFunction,
                                        TypeCast, Tuple, Insert, Update, Delete, CreateTable, OrderBy, Case,
                                        NativeQuery, CommonTableExpression)
    k = t['k']
    ch = {name: [build(x, idmap, keep) for x in kids] for name, kids in t['ch']}

    def one(name):
        v = ch.get(name) or []
        return v[0] if v else None

    def many(name):
        v = ch.get(name)
        return v if v else None
    n = t['id']
    if k == 'Identifier':
        o = Identifier(parts=['i%d' % n])
    elif k == 'Constant':
        o = Constant(n)
    elif k == 'Star':
        o = Star()
    elif k == 'Parameter':
        o = Parameter('?')
    elif k == 'NativeQuery':
        o = NativeQuery(integration=Identifier('int1'), query='select %d' % n)
    elif k == 'Select':
        cte = [CommonTableExpression(name=Identifier('cte%d' % i), query=q) for i, q in enumerate(ch.get('cte') or [])]
        o = Select(targets=ch.get('targets') or [], from_table=one('from_table'), where=one('where'),
                   group_by=many('group_by'), having=one('having'), order_by=many('order_by'), cte=cte or None)
    elif k in ('Union', 'Intersect', 'Except'):
        o = {'Union': Union, 'Intersect': Intersect, 'Except': Except}[k](left=one('left'), right=one('right'))
    elif k == 'Join':
        o = Join(left=one('left'), right=one('right'), join_type='join', condition=one('condition'))
    elif k == 'BinaryOperation':
        o = BinaryOperation(op='=', args=ch.get('args') or [])
    elif k == 'UnaryOperation':
        o = UnaryOperation(op='not', args=(ch.get('args') or [])[:1])
        o.args = list(ch.get('args') or [])
    elif k == 'BetweenOperation':
        a = ch.get('args') or []
        o = BetweenOperation(args=(a + a + a)[:3])
        o.args = list(a)
    elif k in ('Exists', 'NotExists'):
        cls = getattr(A, k)
        o = cls((ch.get('args') or [None])[0])
        o.args = list(ch.get('args') or [])
    elif k == 'Function':
        o = Function(op='f', args=ch.get('args') or [], from_arg=one('from_arg'))
    elif k == 'WindowFunction':
        o = WindowFunction(function=one('function'), partition=many('partition'), order_by=many('order_by'))
    elif k == 'TypeCast':
        o = TypeCast(type_name='int', arg=one('arg'))
    elif k == 'Tuple':
        o = Tuple(items=ch.get('items') or [])
    elif k == 'Insert':
        vals = ch.get('values') or []
        half = (len(vals) + 1) // 2
        rows = [vals[:half], vals[half:]] if len(vals) > 1 else ([vals] if vals else None)
        o = Insert(table=one('table'), values=rows, from_select=one('from_select'))
    elif k == 'Update':
        uc = {'col%d' % i: v for i, v in enumerate(ch.get('update_columns') or [])}
        o = Update(table=one('table'), update_columns=uc, from_select=one('from_select'), where=one('where'))
    elif k == 'Delete':
        o = Delete(table=one('table'), where=one('where'))
    elif k == 'CreateTable':
        o = CreateTable(name=one('name'), from_select=one('from_select'))
    elif k == 'OrderBy':
        o = OrderBy(field=one('field'))
    elif k == 'Case':
        r = ch.get('rules') or []
        o = Case(rules=[[r[i], r[i + 1]] for i in range(0, len(r) - 1, 2)], default=one('default'), arg=one('arg'))
    else:
        raise MachineryError('builder: unknown kind %s' % k)
    idmap[id(o)] = n
    keep.append(o)
    return o


class _Marker:
    """Replacement node returned by the visitor (an Identifier so that printing still works)."""


# attributes the contract leaves out on purpose (assumption listed in the evidence)
NOT_WALKED_BY_CONTRACT = {('Select', 'limit'), ('Select', 'offset'), ('Union', 'limit'), ('Union', 'offset'),
                          ('Select', 'cte'), ('Update', 'from_select_alias')}    # CTE entries are projected through their queries
MARKER_KIND = [0]


def make_marker(n=0):
    """The node a visitor returns.  Its class rotates: an identifier, an EMPTY tuple, the constants 0 and '' and NULL --
    a replacement is a replacement whatever it is (the walker must not test it for truth)."""
    from mindsdb_sql.parser.ast import Identifier, Tuple, Constant, NullConstant
    MARKER_KIND[0] += 1
    k = MARKER_KIND[0] % 5
    if k == 0:
        m = Identifier(parts=['__marker%d__' % n])
    elif k == 1:
        m = Tuple(items=[])
    elif k == 2:
        m = Constant(0)
    elif k == 3:
        m = Constant('')
    else:
        m = NullConstant()
    m._verif_marker = True
    m._verif_marker_n = n
    return m


def run_replace2(root, idmap, plan):
    """plan: {spec id of the node: [marker numbers]}; a list of >1 markers is returned as a python list."""
    from mindsdb_sql.planner.utils import query_traversal
    state = {'n': 0}
    repl = []

    def cb(node, is_table=False, is_target=False, parent_query=None, **kw):
        if node is None:
            return None
        if getattr(node, '_verif_marker', False):
            state['mv'] = state.get('mv', 0) + 1
            return None
        if id(node) not in idmap and not isinstance(node, (list, tuple, dict, str, int, float)):
            return None
        state['n'] += 1
        ms = plan.get(idmap.get(id(node), -1))
        if ms:
            repl.append([idmap.get(id(node), -1), list(ms)])
            mk = [make_marker(n) for n in ms]
            return mk if len(mk) > 1 else mk[0]
        return None
    res = query_traversal(root, cb)
    return (res if res is not None else root), repl, state.get('mv', 0)


SEEN_BY_VISITOR = set()


def unmodelled_nodes(root, idmap):
    """AST nodes reachable from the statement by plain attribute reflection that the projection (Traversal.Schema) does
    not account for: [(parent class, attribute, node)].  A node that is part of the statement but outside the schema is
    either a gap of the specification or a node that moved out of the walker's reach."""
    from mindsdb_sql.parser.ast.base import ASTNode
    out, seen = [], set()

    def walk(o, parent, attr):
        if id(o) in seen or o is None or isinstance(o, (str, int, float, bool, bytes, type)):
            return
        seen.add(id(o))
        if isinstance(o, ASTNode):
            if id(o) not in idmap and parent is not None:
                if id(parent) in idmap:
                    out.append((type(parent).__name__, attr, o))     # top-most node outside the schema, under a known one
                return
            for k_, v in vars(o).items():
                if not k_.startswith('_'):
                    walk(v, o, k_)
        elif isinstance(o, (list, tuple)):
            for x in o:
                walk(x, parent, attr)
        elif isinstance(o, dict):
            for x in o.values():
                walk(x, parent, attr)
        elif hasattr(o, '__dict__'):
            for k_, v in vars(o).items():
                if not k_.startswith('_'):
                    walk(v, parent if parent is not None else o, attr or k_)
    walk(root, None, '')
    return out


NONE_VISITS = []


def run_visit(root, idmap):
    from mindsdb_sql.planner.utils import query_traversal
    got = []
    SEEN_BY_VISITOR.clear()
    del NONE_VISITS[:]

    def cb(node, is_table=False, is_target=False, parent_query=None, **kw):
        if node is None:
            NONE_VISITS.append(1)       # the visitor was called for an EMPTY slot: there is no node to visit
            return None
        from mindsdb_sql.parser.ast.base import ASTNode
        SEEN_BY_VISITOR.add(id(node))
        if id(node) not in idmap and not isinstance(node, (list, tuple, dict, str, int, float)):
            return None     # an object of the statement that the contract does not require (e.g. a column definition)
        got.append({'id': idmap.get(id(node), -1), 'table': bool(is_table), 'target': bool(is_target)})
        return None
    query_traversal(root, cb)
    return got


def run_replace(root, idmap, k):
    from mindsdb_sql.planner.utils import query_traversal
    state = {'n': 0, 'target': None}
    marker = make_marker()

    def cb(node, is_table=False, is_target=False, parent_query=None, **kw):
        if node is None:
            return None
        from mindsdb_sql.parser.ast.base import ASTNode
        if getattr(node, '_verif_marker', False):
            state['mv'] = state.get('mv', 0) + 1
            return None
        if id(node) not in idmap and not isinstance(node, (list, tuple, dict, str, int, float)):
            return None
        state['n'] += 1
        if state['n'] == k:
            state['target'] = idmap.get(id(node), -1)
            return marker
        return None
    res = query_traversal(root, cb)
    return (res if res is not None else root), state['target'], state.get('mv', 0)


def run(ctx):
    thorough = ctx.tier == 'thorough'
    rng = random.Random(ctx.seed + 13)
    g = ctx.tlc('TraversalGen', cfg='TraversalGen3.cfg' if thorough else 'TraversalGen2.cfg', name='traversal_gen',
                timeout=6000)
    if g.violated or not g.ok:
        raise MachineryError('TraversalGen: %s %s' % (g.violated, g.errors[:2]))
    gen = [v[1] for v in find_prints(g.out, 'CASE')]
    if len(gen) != g.distinct:
        raise MachineryError('TraversalGen: parsed %d of %d cases' % (len(gen), g.distinct))
    # schema: printed by the trace module (ASSUME), take it from a tiny run
    dump_json(ctx.work / 'empty.json', [{'kind': 'visit', 't': {'k': 'Identifier', 'id': 1, 'ch': []},
                                         'got': [{'id': 1, 'table': False, 'target': False}]}])
    s0 = ctx.tlc('TraversalTrace', env={'VERIF_TRACES': ctx.work / 'empty.json'}, workers=1, name='schema')
    schema = parse_schema(s0.out)

    traces = []
    meta = []
    errors = 0

    def add_tree_cases(t_spec, make_root, source, max_replace):
        nonlocal errors
        try:
            root, idmap = make_root()
            got = run_visit(root, idmap)
        except Exception as e:   # noqa
            errors += 1
            ctx.violation('walker-raises:%s' % type(e).__name__, 'query_traversal raised on a well-formed tree: %s' % e,
                          {'source': source, 'tree': t_spec})
            return
        if NONE_VISITS and source != 'generated':      # (generated trees may leave a mandatory slot empty: only trees of the parser are judged)
            kinds_ = sorted({k_ for k_ in json.dumps(t_spec).split('"k": "')[1:] for k_ in [k_.split('"')[0]]})
            ctx.violation('visited-nothing:%s' % ('Case' if 'Case' in kinds_ else ('WindowFunction' if 'WindowFunction' in kinds_ else '+'.join(kinds_[:3]))),
                          'the visitor was called %d time(s) with None: an empty slot of the tree was "visited"' % len(NONE_VISITS),
                          {'source': source, 'tree': t_spec})
        # nodes of the statement the schema does not know: they must at least have been shown to the visitor
        for pk, attr, node in (unmodelled_nodes(root, idmap) if id(root) in idmap else []):
            if id(node) not in SEEN_BY_VISITOR and (pk, attr) not in NOT_WALKED_BY_CONTRACT and attr != 'alias' \
                    and schema.get(pk):
                ctx.violation('missing:%s.%s(outside-schema)' % (pk, attr),
                              'a node of the statement (attribute %s of %s, class %s) is reachable in the tree but neither known to the '
                              'walker contract nor shown to the visitor' % (attr, pk, type(node).__name__),
                              {'source': source, 'tree': t_spec})
        traces.append({'kind': 'visit', 't': t_spec, 'got': got})
        meta.append((source, None))
        ks = list(range(1, len(got) + 1))
        if len(ks) > max_replace:
            ks = sorted(rng.sample(ks, max_replace))
        for k in ks:
            try:
                root2, idmap2 = make_root()
                after_root, target, mv = run_replace(root2, idmap2, k)
                pj = Projector(schema)
                pj.idmap = dict(idmap2)
                after = pj.tree(after_root, assign=False)
            except Exception as e:   # noqa
                ctx.violation('walker-raises-on-replace:%s' % type(e).__name__,
                              'query_traversal raised when the visitor returned a replacement: %s' % e,
                              {'source': source, 'tree': t_spec, 'k': k})
                continue
            traces.append({'kind': 'replace', 't': t_spec, 'target': target, 'after': after, 'mv': mv})
            meta.append((source, k))
        # two replacements in one run; a select-list item may be answered with a list (spliced in place)
        tg = [g['id'] for g in got if g['target']]
        plans = []
        if len(tg) >= 2:
            plans.append({tg[0]: [1, 2], tg[1]: [3]})
            plans.append({tg[0]: [1], tg[-1]: [2, 3]})
        if len(got) >= 3:
            a, b = rng.sample([g['id'] for g in got[1:]], 2)
            plans.append({a: [1], b: [2]})
        for plan in plans:
            try:
                root2, idmap2 = make_root()
                after_root, repl, mv = run_replace2(root2, idmap2, plan)
                pj = Projector(schema)
                pj.idmap = dict(idmap2)
                after = pj.tree(after_root, assign=False)
            except Exception as e:   # noqa
                ctx.violation('walker-raises-on-replace:%s' % type(e).__name__,
                              'query_traversal raised when the visitor returned replacements: %s' % e,
                              {'source': source, 'tree': t_spec, 'plan': {str(k_): v for k_, v in plan.items()}})
                continue
            # a second replacement inside a subtree that was already replaced is never visited: drop unreached ones
            traces.append({'kind': 'replace2', 't': t_spec, 'repl': repl, 'after': after, 'mv': mv})
            meta.append((source, 'plan:%s' % sorted(plan.items())))

    # spec -> code
    for t in gen:
        def mk(t=t):
            idmap, keep = {}, []
            root = build(t, idmap, keep)
            idmap['_keep'] = keep
            return root, idmap
        add_tree_cases(t, mk, 'generated', 40 if thorough else 12)
    n_gen = len(traces)

    # code -> spec: parser-produced trees
    from mindsdb_sql import parse_sql
    from .corpus import accepted
    stmts = list(CRAFTED)
    acc = [s for s in accepted('mindsdb') if len(s) < 600]
    rng.shuffle(acc)
    stmts += acc[:(100000 if thorough else 300)]
    unsupported = set()
    n_parsed = 0
    for sql in stmts:
        try:
            parse_sql(sql, dialect='mindsdb')
        except Exception:   # noqa
            continue

        def mk(sql=sql):
            root = parse_sql(sql, dialect='mindsdb')
            pj = Projector(schema)
            pj.tree(root)
            pj.idmap['_keep'] = pj.keep
            return root, pj.idmap
        pj0 = Projector(schema)
        t_spec = pj0.tree(parse_sql(sql, dialect='mindsdb'))
        unsupported |= pj0.unsupported
        n_parsed += 1
        add_tree_cases(t_spec, mk, sql, 6 if not thorough else 15)

    # validated in batches: one JSON document of every run is too large for TLC's deserialiser in the thorough tier
    verdicts = {}
    BATCH = 15000
    for b0 in range(0, len(traces), BATCH):
        path = ctx.work / ('travtraces_%d.json' % (b0 // BATCH))
        dump_json(path, traces[b0:b0 + BATCH])
        r = ctx.tlc('TraversalTrace', env={'VERIF_TRACES': path}, name='traversal_trace' + ('_%d' % (b0 // BATCH) if b0 else ''),
                    timeout=6000)
        if not r.ok:
            raise MachineryError('TraversalTrace failed: %s' % r.errors[:3])
        for v in find_prints(r.out, 'ACC'):
            verdicts[b0 + v[1]] = v[2]
        path.unlink()
    if len(verdicts) != len(traces):
        raise MachineryError('TraversalTrace judged %d of %d' % (len(verdicts), len(traces)))
    n_visit = n_repl = 0
    for i, (tr, (source, k)) in enumerate(zip(traces, meta)):
        v = verdicts[i + 1]
        if v[0] == 'visit':
            n_visit += 1
            j = v[1]
            for defect in ('missing', 'duplicate', 'flag', 'nesting'):
                for pk, slot in j[defect]:
                    ctx.violation('%s:%s.%s' % (defect, pk, slot),
                                  'walker defect "%s" for nodes in slot %s of %s' % (defect, slot, pk),
                                  {'source': source, 'tree': tr['t'], 'got': tr['got']})
            for pk, s1, s2 in j['order']:
                ctx.violation('order:%s.%s-after-%s' % (pk, s1, s2),
                              'children of %s: slot %s is visited after slot %s although it comes first in the text'
                              % (pk, s1, s2), {'source': source, 'tree': tr['t'], 'got': tr['got']})
            for x in j['unexpected']:
                ctx.violation('unexpected-visit', 'visitor called for an object that is not a node of the statement',
                              {'source': source, 'tree': tr['t'], 'got': tr['got']})
        elif v[0] == 'replace2':
            n_repl += 1
            if v[1] == 'replacement-visited':
                ctx.violation('replacement-visited:list-for-select-item', 'the visitor was called on a node it had itself returned as '
                              'a replacement', {'source': source, 'plan': k, 'repl': tr['repl'], 'tree': tr['t']})
            elif v[1] != 'ok':
                coords = sorted(set(str(locate(tr['t'], r_[0])) + ('[list]' if len(r_[1]) > 1 else '') for r_ in tr['repl']))
                ctx.violation('replace-many:%s' % '+'.join(coords),
                              'with several replacements in one run (a list for a select-list item is spliced in place) '
                              'the resulting tree is not the one the contract demands',
                              {'source': source, 'plan': k, 'repl': tr['repl'], 'tree': tr['t'], 'after': tr['after']})
        else:
            n_repl += 1
            if v[1] != 'ok':
                # coordinate of the replaced node
                coord = locate(tr['t'], tr['target'])
                ctx.violation('%s:%s' % (v[1], coord),
                              'a node returned by the visitor did not replace exactly the visited node (%s)' % v[1],
                              {'source': source, 'k': k, 'target_id': tr['target'], 'tree': tr['t'], 'after': tr['after']})
    ctx.cov['traces_validated_against_impl'] = len(traces)
    ctx.cov['evaluations'] = len(traces)
    ctx.cov['generated_trees'] = len(gen)
    ctx.cov['parsed_statements'] = n_parsed
    ctx.cov['visit_runs'] = n_visit
    ctx.cov['replace_runs'] = n_repl
    ctx.cov['node_kinds_outside_schema_with_node_children'] = sorted(unsupported)
    ctx.sample({'source': 'generated', 'tree': gen[0]})
    ctx.sample({'source': CRAFTED[0], 'visits': traces[n_gen]['got'][:8] if len(traces) > n_gen else []})
    ctx.assumptions += ['LIMIT/OFFSET constants, INSERT column lists and CREATE TABLE column definitions are not '
                        'counted as expression nodes (weakest reading)',
                        'MindsDB command nodes outside Schema are leaves for the walker contract']
    return ctx.finish(exhaustive=False)


def locate(t, target, pk='root', slot='root'):
    if t['id'] == target:
        return '%s.%s' % (pk, slot)
    for name, kids in t['ch']:
        for x in kids:
            r = locate(x, target, t['k'], name)
            if r:
                return r
    return None


def replay(ctx, path):
    rec = json.load(open(path))['replay']
    print(json.dumps(rec, indent=1)[:3000])
    return 0
