"""Export grammar, LR tables and lexer facts from the repository's sly objects (working tree)."""
import json


def export_tables(parser_cls):
    g = parser_cls._grammar
    t = parser_cls._lrtable
    prods = []
    for p in g.Productions[1:]:
        prods.append({'name': p.name, 'rhs': list(p.prod)})
    nstates = max(list(t.lr_action.keys()) + list(t.lr_goto.keys())) + 1
    action, goto, defaulted = [], [], []
    for s in range(nstates):
        row = t.lr_action.get(s, {})
        action.append({k: v for k, v in row.items() if v is not None})
        goto.append(dict(t.lr_goto.get(s, {})))
        defaulted.append(t.defaulted_states.get(s, 0))
    return {
        'start': g.Productions[0].prod[0],
        'prods': prods,
        'action': action,
        'goto': goto,
        'defaulted': defaulted,
        'terminals': sorted(k for k in g.Terminals if k != 'error'),
        'nonassoc_holes': sum(1 for s in range(nstates) for v in t.lr_action.get(s, {}).values() if v is None),
    }


def tla_safe(tab):
    """TLC's JsonDeserialize turns {} into an empty sequence; give every row a harmless key."""
    out = dict(tab)
    out['action'] = [dict(r, **{'<pad>': 1000000}) for r in tab['action']]
    out['goto'] = [dict(r, **{'<pad>': 0}) for r in tab['goto']]
    return out


def dialect_classes(dialect):
    if dialect == 'sqlite':
        from mindsdb_sql.parser.lexer import SQLLexer
        from mindsdb_sql.parser.parser import SQLParser
        return SQLLexer, SQLParser
    if dialect == 'mysql':
        from mindsdb_sql.parser.dialects.mysql.lexer import MySQLLexer
        from mindsdb_sql.parser.dialects.mysql.parser import MySQLParser
        return MySQLLexer, MySQLParser
    from mindsdb_sql.parser.dialects.mindsdb.lexer import MindsDBLexer
    from mindsdb_sql.parser.dialects.mindsdb.parser import MindsDBParser
    return MindsDBLexer, MindsDBParser


DIALECTS = ('mindsdb', 'mysql', 'sqlite')

if __name__ == '__main__':
    import sys
    lex, par = dialect_classes(sys.argv[1])
    json.dump(tla_safe(export_tables(par)), open(sys.argv[2], 'w'), separators=(',', ':'))
