"""Entry point: ./check <ID> [--tier quick|thorough] [--replay path]"""
import argparse
import importlib
import os
import sys
import traceback

from .common import Ctx, MachineryError

LEVELS = {
    'C01': 'exploration',
    'C06': 'translation_validation', 'C08': 'translation_validation',
    'C11': 'translation_validation', 'C15': 'translation_validation',
}


def main():
    ap = argparse.ArgumentParser()
    ap.add_argument('pid')
    ap.add_argument('--tier', default=os.environ.get('VERIF_TIER') or 'quick', choices=['quick', 'thorough'])
    ap.add_argument('--replay', default=None)
    ap.add_argument('--pin', action='store_true', help='developer action: record the failing inputs of listed findings')
    a = ap.parse_args()
    pid = a.pid.upper()
    try:
        mod = importlib.import_module('harness.' + pid.lower())
    except ImportError:
        traceback.print_exc()
        print('no check for %s' % pid)
        sys.exit(2)
    ctx = Ctx(pid, a.tier, LEVELS.get(pid, 'model_checking'))
    ctx.pin_mode = a.pin
    try:
        if a.replay:
            rc = mod.replay(ctx, a.replay)
        else:
            rc = mod.run(ctx)
            if a.pin:
                ctx.write_pins()
    except MachineryError as e:
        print('MACHINERY-ERROR: %s' % e)
        sys.exit(2)
    except Exception:   # noqa
        traceback.print_exc()
        print('MACHINERY-ERROR: unexpected exception in the harness')
        sys.exit(2)
    sys.exit(rc)


if __name__ == '__main__':
    main()
