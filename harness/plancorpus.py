"""(query, catalog) corpora for the planner checks.

harvest()   -- every plan_query call the repository's own planner tests make (query text + keyword arguments),
               recorded by running the test methods with a recording wrapper (assertion failures are ignored).
generated() -- join sequences of tables / models / sub-selects with and without partition_size, DML and set
               operations, over several catalog shapes.
"""
import copy
import importlib
import inspect
import os
import sys

from .common import REPO

_cache = {}


def harvest():
    if 'h' in _cache:
        return _cache['h']
    out = []
    seen = set()
    tdir = REPO / 'tests' / 'test_planner'
    if str(REPO) not in sys.path:
        sys.path.insert(0, str(REPO))
    import mindsdb_sql.planner as planner_pkg
    real = planner_pkg.plan_query

    def recorder(query, *a, **kw):
        try:
            key = (str(query), repr(sorted((k, repr(v)) for k, v in kw.items())))
            if key not in seen and not a:
                seen.add(key)
                out.append({'sql': str(query), 'kwargs': copy.deepcopy(kw), 'cls': type(query).__name__,
                            'query': copy.deepcopy(query)})
        except Exception:   # noqa
            pass
        return real(query, *a, **kw)
    for fn in sorted(os.listdir(tdir)):
        if not fn.startswith('test_') or not fn.endswith('.py') or fn == 'test_prepared_statement.py':
            continue
        try:
            mod = importlib.import_module('tests.test_planner.' + fn[:-3])
        except Exception:   # noqa
            continue
        if hasattr(mod, 'plan_query'):
            mod.plan_query = recorder
        for cname, klass in inspect.getmembers(mod, predicate=inspect.isclass):
            if not cname.startswith('Test'):
                continue
            try:
                obj = klass()
            except Exception:   # noqa
                continue
            for tname, meth in inspect.getmembers(obj, predicate=inspect.ismethod):
                if not tname.startswith('test'):
                    continue
                try:
                    meth()
                except BaseException:   # noqa
                    pass
        if hasattr(mod, 'plan_query'):
            mod.plan_query = real
    _cache['h'] = out
    return out


CATALOGS = {
    'names': dict(integrations=['int1', 'int2'], default_namespace='mindsdb',
                  predictor_metadata=[{'name': 'pred', 'integration_name': 'mindsdb'},
                                      {'name': 'pred2', 'integration_name': 'proj', 'to_predict': ['y']}]),
    'dicts': dict(integrations=[{'name': 'int1', 'type': 'data'}, {'name': 'int2', 'type': 'data'},
                                {'name': 'proj', 'type': 'project'}], default_namespace='mindsdb',
                  predictor_metadata=[{'name': 'pred', 'integration_name': 'mindsdb'},
                                      {'name': 'pred2', 'integration_name': 'proj', 'to_predict': 'y'},
                                      {'name': 'pred3', 'integration_name': 'proj', 'to_predict': 'target_xz'},
                                      {'name': 'pred4', 'integration_name': 'proj', 'to_predict': ['target_xz', 'other']}]),
    'legacy-dict': dict(integrations=['int1', 'int2'], predictor_namespace='mindsdb',
                        predictor_metadata={'pred': {}, 'pred2': {'integration_name': 'proj', 'to_predict': ['y']}}),
    'legacy-dict-targets': dict(integrations=['int1', 'int2'], predictor_namespace='mindsdb',
                                predictor_metadata={'pred': {}, 'pred2': {'integration_name': 'proj', 'to_predict': ['y']},
                                                    'pred3': {'integration_name': 'proj', 'to_predict': 'target_xz'},
                                                    'pred4': {'integration_name': 'proj', 'to_predict': ['target_xz', 'other']}}),
    'no-default': dict(integrations=['int1', 'int2'],
                       predictor_metadata=[{'name': 'pred', 'integration_name': 'mindsdb'},
                                           {'name': 'pred2', 'integration_name': 'proj'}]),
    'default-int1': dict(integrations=['int1', 'int2'], default_namespace='int1',
                         predictor_metadata=[{'name': 'pred', 'integration_name': 'mindsdb'},
                                             {'name': 'pred2', 'integration_name': 'proj', 'to_predict': ['y']}]),
    'default-int2-dicts': dict(integrations=[{'name': 'int1', 'type': 'data'}, {'name': 'int2', 'type': 'data'},
                                             {'name': 'proj', 'type': 'project'}], default_namespace='int2',
                               predictor_metadata=[{'name': 'pred', 'integration_name': 'mindsdb'},
                                                   {'name': 'pred2', 'integration_name': 'proj', 'to_predict': 'y'}]),
    # list-form predictor records without integration_name: the models live in predictor_namespace
    'list-no-integration-name': dict(integrations=['int1', 'int2'], predictor_namespace='mindsdb', default_namespace='mindsdb',
                                     predictor_metadata=[{'name': 'pred'}, {'name': 'pred2', 'integration_name': 'proj', 'to_predict': ['y']}]),
    'api': dict(integrations=[{'name': 'int1', 'type': 'data', 'class_type': 'api'}, {'name': 'int2', 'type': 'data'}],
                default_namespace='mindsdb',
                predictor_metadata=[{'name': 'pred', 'integration_name': 'mindsdb'},
                                    {'name': 'pred2', 'integration_name': 'proj'}]),
}
TS = [{'name': 'tp', 'integration_name': 'mindsdb', 'timeseries': True, 'window': 2, 'order_by_column': 'ts',
       'group_by_columns': ['g']},
      {'name': 'tp0', 'integration_name': 'mindsdb', 'timeseries': True, 'window': 2, 'order_by_column': 'ts',
       'group_by_columns': []},
      {'name': 'tpn', 'integration_name': 'mindsdb', 'timeseries': True, 'window': 2, 'order_by_column': 'ts',
       'group_by_columns': None},
      {'name': 'tpx', 'integration_name': 'mindsdb', 'timeseries': True, 'window': 1, 'order_by_column': 'ts',
       'group_by_columns': ['g', 'h']}]


def catalog(name, with_ts=False):
    c = copy.deepcopy(CATALOGS[name])
    if with_ts:
        pm = c['predictor_metadata']
        if isinstance(pm, list):
            pm.extend(copy.deepcopy(TS))
        else:
            for t in TS:
                t = copy.deepcopy(t)
                pm[t.pop('name')] = t
    return c


def generated():
    """SQL texts; each is planned under every catalog by the caller."""
    q = []
    items = {'T1': 'int1.t1', 'T2': 'int2.t2', 'T3': 'int1.t3', 'M': 'mindsdb.pred', 'M2': 'proj.pred2',
             'S': '(select * from int2.t2 where c = 1)'}
    alias = {'T1': 't1', 'T2': 't2', 'T3': 't3', 'M': 'm', 'M2': 'm2', 'S': 's'}
    col = {'T1': 'a', 'T2': 'a', 'T3': 'b', 'M': 'a', 'M2': 'a', 'S': 'a'}
    seqs = []
    names = list(items)
    for a in names:
        for b in names:
            if a == b:
                continue
            seqs.append([a, b])
            for c in names:
                if c in (a, b):
                    continue
                seqs.append([a, b, c])
    for a in ('T1',):
        for b in ('M', 'T2'):
            for c in ('T2', 'M2', 'M', 'T3'):
                for d in ('T3', 'M2', 'S'):
                    if len({a, b, c, d}) == 4:
                        seqs.append([a, b, c, d])
    # onprev: the ON clause of a table / sub-select names the FIRST item of the join (always a table or a sub-select), or the
    # item written directly before it -- which may be a model: `t1 join model m join t3 on t3.b = m.a`
    for seq, onprev in [(s_, False) for s_ in seqs] + [(s_, True) for s_ in seqs if len(s_) > 2 and any(x.startswith('M') for x in s_[1:-1])]:
        frm = '%s as %s' % (items[seq[0]], alias[seq[0]])
        for i, it in enumerate(seq[1:], 1):
            prev = seq[i - 1] if onprev else seq[0]
            on = ''
            if not it.startswith('M'):
                on = ' on %s.%s = %s.%s' % (alias[it], col[it], alias[prev], col[prev])
            frm += ' join %s as %s%s' % (items[it], alias[it], on)
        has_model = any(x.startswith('M') for x in seq)
        for using in ([''] + ([' using partition_size = 2', ' using m.partition_size = 2, m2.partition_size = 3',
                               ' using partition_size = 2, m2.partition_size = 5'] if has_model else [])):
            for tail in ('', ' where %s.%s = 1' % (alias[seq[0]], col[seq[0]]), ' limit 2'):
                q.append('select * from %s%s%s' % (frm, tail, using))
    q += [
        'select * from mindsdb.pred where a = 1 and b = 2',
        'select * from mindsdb.pred where a = 1 or b = 2',
        'select * from mindsdb.pred.3 where a = 1',
        'select a from int1.t1 union select a from int2.t2',
        'select a from int1.t1 union all select a from int2.t2 union select b from int1.t3',
        'select a from int1.t1 intersect select a from int2.t2',
        'insert into int1.t2 (a) select a from int2.t2 where c = 1',
        'insert into int1.t2 (a, c) values (1, 2)',
        'insert into int1.t2 (a) select t1.a from int1.t1 as t1 join mindsdb.pred as m',
        'update int1.t1 set b = 2 where a = 1',
        'update int1.t1 set b = s.c from (select a, c from int2.t2) as s where t1.a = s.a',
        'delete from int1.t1 where a = 1',
        'delete from int1.t1 where a in (select a from int2.t2)',
        'create table int1.t9 (select a from int2.t2)',
        'create table int1.t9 (select t1.a, m.y from int2.t2 as t1 join mindsdb.pred as m)',
        'create or replace table int1.t9 (select a from int2.t2)',
        'select * from int1.t1 where a in (select a from int2.t2) and b = (select max(c) from int2.t2)',
        'select * from int1.t1 as t1 join mindsdb.tp as m where t1.ts > latest and t1.g = 1',
        'select * from int1.t1 as t1 join mindsdb.tp as m where t1.ts > 5 limit 3',
        'select * from int1.t1 as t1 join mindsdb.tp0 as m where t1.ts between 1 and 3',
        'select * from int1.t1 as t1 join mindsdb.tp as m join int2.t2 as t2 on t2.a = t1.a',
        'select * from int1.t1 as t1 join mindsdb.tpn as m where t1.ts > latest',
        'select * from int1.t1 as t1 join mindsdb.tpn as m where t1.ts > 3 and t1.ts < 9',
        'select * from int1.t1 as t1 join mindsdb.tpx as m where t1.ts >= 3',
        'select * from int1.t1 as t1 join mindsdb.tpx as m',
        'select * from mindsdb.tpn as m join int1.t1 as t1 where t1.ts = 4',
        'select m.* from int1.t1 as t1 join mindsdb.tp as m where t1.ts > latest and t1.g = 1 limit 5',
        'select * from nosuch.t1 join int9.t2 on t1.a = t2.a',
        'select * from files.f1 join int1.t1 on f1.a = t1.a',
        'select * from int1.t1, int2.t2 where t1.a = t2.a',
        'select * from int1.t1 as t1 join mindsdb.pred as m where m.x = 1 and t1.b > 2 and not t1.a = 3',
        'select m.y, t1.a from mindsdb.pred as m join int1.t1 as t1',
        'with c as (select * from int2.t2) select * from int1.t1 join c on t1.a = c.a',
        'select * from (select * from int1.t1) as s join mindsdb.pred as m',
        'select * from int1 (select * from t1) as s join mindsdb.pred as m',
    ]
    # clauses of the outer query whose items are not plain columns (ordinals, functions, arithmetic, signs, predicates)
    for frm in ('int1.t1 as t1 join mindsdb.pred as m', 'int1.t1 as t1 left join int2.t2 as t2 on t1.a = t2.a',
                'int1.t1 as t1 join int2.t2 as t2 on t1.a = t2.a', 'int1.t1 as t1 join mindsdb.tp as m'):
        for tail in ('order by 1', 'order by lower(t1.a)', 'order by t1.a * 2 desc', 'order by -t1.a', 'order by t1.a is null, t1.b',
                     'order by t1.a limit 2', 'order by 2 limit 1 offset 1', 'group by t1.a order by count(*)',
                     'group by t1.a having count(*) > 1', 'order by case when t1.a > 1 then 1 else 0 end', 'limit 0', 'order by t1.a nulls first'):
            q.append('select t1.a, t1.b from %s %s' % (frm, tail))
    # a model with partition_size followed by sub-selects / CTE references whose alias equals the inner table or CTE name
    q += ['select * from int2.t2 as a join mindsdb.pred as p join (select a from int1.t1 limit 3) as t1 using partition_size = 10',
          'select * from int2.t2 as a join mindsdb.pred as p join (select a from int1.t1 limit 3) as zz using partition_size = 10',
          'with c as (select * from int2.t2) select * from int1.t1 as a join mindsdb.pred as p join c using partition_size = 2',
          'with c as (select * from int2.t2) select * from int1.t1 as a join mindsdb.pred as p join c as c on c.a = a.a using partition_size = 2',
          'select * from int2.t2 as a join mindsdb.pred as p join (select a from int1.t1) as t1 on t1.a = a.a join int2.t5 as w on w.a = a.a using partition_size = 3',
          'select * from mindsdb.pred where a = 1', 'insert into int1.t9 (a) select y from mindsdb.pred where a = 1',
          'select * from int1.t1 where a in (select y from mindsdb.pred where a = 1)', 'select * from int1.t1 as t join mindsdb.tp as m where t.ts > latest']
    # shapes that earlier rounds of seeding found to end in internal errors on the unmodified tree (kept as regression inputs)
    q += ['with a as (select * from int1.t1 as t1 join mindsdb.pred as m) select * from a where a.x in (select x from a)',
          'select * from (select * from int1.t1 as t1 join int2.t2 as t2 on t1.a = t2.a) as s join mindsdb.tp as m',
          'select * from int1.t1 as t1 join mindsdb.pred as m join mindsdb.tp as m2']
    return q
