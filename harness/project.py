"""The single projection from real objects to spec values.

AST / plan-step objects are projected by reflection over __dict__ (never through to_string, to_tree,
__eq__, copy or query_traversal -- those are code under test).
"""
import datetime
import decimal
import hashlib
import json

_SKIP_PRIVATE = True


def _is_node(o):
    from mindsdb_sql.parser.ast.base import ASTNode
    return isinstance(o, ASTNode)


def proj(o, private=False, _depth=0):
    """JSON-able structural image of an AST node / plan step / plain value."""
    if _depth > 200:
        return {'k': '<too-deep>'}
    if o is None or isinstance(o, (bool, int, str)):
        return o
    if isinstance(o, float):
        return {'k': '<float>', 'v': repr(o)}
    if isinstance(o, decimal.Decimal):
        return {'k': '<decimal>', 'v': str(o)}
    if isinstance(o, (datetime.date, datetime.datetime, datetime.time)):
        return {'k': '<' + type(o).__name__ + '>', 'v': o.isoformat()}
    if isinstance(o, bytes):
        return {'k': '<bytes>', 'v': o.hex()}
    if isinstance(o, (list, tuple)):
        return [proj(x, private, _depth + 1) for x in o]
    if isinstance(o, (set, frozenset)):
        return {'k': '<set>', 'v': sorted(json.dumps(proj(x, private, _depth + 1), sort_keys=True, default=str) for x in o)}
    if isinstance(o, dict):
        return {'k': '<dict>', 'items': [[proj(k, private, _depth + 1), proj(v, private, _depth + 1)] for k, v in o.items()]}
    if isinstance(o, type):
        return {'k': '<class>', 'v': o.__name__}
    d = getattr(o, '__dict__', None)
    if d is None:
        slots = getattr(type(o), '__slots__', None)
        if slots:
            d = {s: getattr(o, s, None) for s in slots}
        else:
            return {'k': '<' + type(o).__name__ + '>', 'v': repr(o)[:200]}
    out = {'k': type(o).__name__}
    for name, v in d.items():
        if name.startswith('_') and not private:
            continue
        if name == 'result_data':
            continue
        out[name] = proj(v, private, _depth + 1)
    return out


def digest(o, private=False):
    return hashlib.sha1(json.dumps(proj(o, private), sort_keys=True, default=str).encode()).hexdigest()[:16]


def jdump(o):
    return json.dumps(o, sort_keys=True, default=str)


def walk_objects(o, fn, _seen=None, path=()):
    """Reflection walk over every reachable object (lists, dicts, node attributes); fn(obj, path).
    If fn returns the string 'stop' the walk does not descend into that object."""
    if _seen is None:
        _seen = set()
    if o is None or isinstance(o, (bool, int, float, str, bytes, type)):
        return
    if id(o) in _seen:
        return
    _seen.add(id(o))
    if fn(o, path) == 'stop':
        return
    if isinstance(o, (list, tuple, set, frozenset)):
        for i, x in enumerate(o):
            walk_objects(x, fn, _seen, path + (i,))
    elif isinstance(o, dict):
        for k, v in o.items():
            walk_objects(k, fn, _seen, path + ('<key>',))
            walk_objects(v, fn, _seen, path + (k,))
    else:
        d = getattr(o, '__dict__', None)
        if d:
            for k, v in d.items():
                if k == 'result_data':
                    continue
                walk_objects(v, fn, _seen, path + (k,))


def plan_proj(plan):
    """A.2: {"steps":[{"num","kind","refs":[...],"sub":[...],"f":{...}}]}"""
    from mindsdb_sql.planner.step_result import Result

    def step(s):
        refs = []
        subs = []

        def visit(o, path):
            from mindsdb_sql.planner.steps import PlanStep as _PS
            if isinstance(o, Result):
                refs.append(o.step_num)
            elif isinstance(o, _PS):
                # a step object held in a field is a reference to that step's result
                refs.append(getattr(o, 'step_num', None))
                return 'stop'
        d = dict(getattr(s, '__dict__', {}))
        sub_objs = []
        for name in ('step', 'steps'):
            v = d.get(name)
            if v is None:
                continue
            from mindsdb_sql.planner.steps import PlanStep
            if isinstance(v, PlanStep):
                sub_objs.append(v)
                d.pop(name)
            elif isinstance(v, list) and v and all(isinstance(x, PlanStep) for x in v):
                sub_objs.extend(v)
                d.pop(name)
        d.pop('result_data', None)
        seen = set()
        for k, v in d.items():
            walk_objects(v, visit, seen)
        for x in sub_objs:
            subs.append(step(x))
        return {'num': getattr(s, 'step_num', None), 'kind': type(s).__name__, 'refs': refs, 'sub': subs,
                'f': {k: proj(v) for k, v in d.items() if k not in ('step_num', 'references')}}
    return {'steps': [step(s) for s in plan.steps]}
