"""C04 -- string, number and identifier tokens keep exactly the value the SQL text denotes.

spec      : Lexeme.tla -- scanner automata for the quoting styles and for identifier paths; LexemeMC proves
            the reference self-consistent on every body of <= N units / path of <= 3 parts and emits the cases.
decode    : every emitted (text, value) is parsed by the real dialects (select list, WHERE operand, USING
            value; column / table position for paths) and the value in the tree must be the denoted one.
encode    : every emitted value / part list is put in a tree and printed by the real code; the printed
            characters are judged by TLC (LexemeTrace) with the scanner of the library's own rules.
render    : every emitted name (all sequences of <= 2 (3) characters over 17 classes, long names, a keyword) in four
            positions of a statement rendered through SQLAlchemy for eleven ways of naming a dialect (six names, five
            dialect classes); the rendered statement is matched by TLC (MatchSegs / TPath) under the target's rules.
numbers   : a fixed list of spellings (leading zeros, trailing zeros, big integers, signs), checked in Python.
"""
import json

from .common import MachineryError, dump_json
from .corpus import pmap
from .tlaparse import find_prints

DIALECTS = ('mindsdb', 'mysql', 'sqlite')
NUMBERS = ['0', '7', '007', '10', '1.5', '1.50', '0.1', '00.10', '3.0', '123456789012345678901234567890',
           '9007199254740993', '0.000001', '100.001']


def s_of(codes):
    return ''.join(chr(c) for c in codes)


def _decode_case(args):
    kind, text, expected, ctxs = args
    from mindsdb_sql import parse_sql
    out = []
    for d in DIALECTS:
        for cname in ctxs:
            try:
                if cname == 'select':
                    node = parse_sql('SELECT %s' % text, d).targets[0]
                elif cname == 'where':
                    node = parse_sql('SELECT 1 FROM t WHERE c = %s' % text, d).where.args[1]
                elif cname == 'inlist':
                    node = parse_sql('SELECT 1 FROM t WHERE c IN (1, %s)' % text, d).where.args[1].items[1]
                elif cname == 'using':
                    if d != 'mindsdb':
                        continue
                    q = parse_sql('CREATE MODEL m PREDICT y USING k = %s' % text, d)
                    v = q.using['k']
                    out.append((d, cname, 'ok', 'str', v if isinstance(v, str) else repr(v)))
                    continue
                elif cname == 'dqtable':
                    node = parse_sql('SELECT 1 FROM %s' % text, d).from_table
                elif cname == 'column':
                    node = parse_sql('SELECT %s FROM t' % text, d).targets[0]
                elif cname == 'table':
                    node = parse_sql('SELECT 1 FROM %s' % text, d).from_table
                elif cname == 'alias':
                    node = parse_sql('SELECT 1 AS %s' % text, d).targets[0].alias
                elif cname == 'derived-collist':
                    if d != 'mindsdb':
                        continue
                    node = parse_sql('SELECT * FROM (SELECT a, b FROM t) AS q (%s, z)' % text, d).from_table.targets[0].alias
                elif cname == 'insert-column':
                    v = parse_sql('INSERT INTO t (%s) VALUES (1)' % text, d).columns[0].name
                    out.append((d, cname, 'ok', 'ident', [str(v)] if not hasattr(v, 'parts') else [str(x) for x in v.parts]))
                    continue
                elif cname == 'update-column':
                    ks = list(parse_sql('UPDATE t SET %s = 1' % text, d).update_columns.keys())
                    out.append((d, cname, 'ok', 'ident', [str(k) for k in ks]))
                    continue
                elif cname == 'cte-name':
                    node = parse_sql('WITH %s AS (SELECT 1) SELECT 2' % text, d).cte[0].name
                elif cname == 'table-alias':
                    node = parse_sql('SELECT 1 FROM t AS %s' % text, d).from_table.alias
                elif cname == 'order-by':
                    node = parse_sql('SELECT 1 FROM t ORDER BY %s' % text, d).order_by[0].field
                elif cname == 'function-arg':
                    node = parse_sql('SELECT f(1, %s) FROM t' % text, d).targets[0].args[1]
                elif cname == 'insert-table':
                    node = parse_sql('INSERT INTO %s (a) VALUES (1)' % text, d).table
                elif cname == 'update-table':
                    node = parse_sql('UPDATE %s SET a = 1' % text, d).table
                elif cname == 'delete-table':
                    node = parse_sql('DELETE FROM %s WHERE a = 1' % text, d).table
                elif cname == 'join-table':
                    node = parse_sql('SELECT 1 FROM t JOIN %s ON 1 = 1' % text, d).from_table.right
                elif cname == 'setvar':
                    node = parse_sql('SET %s = 1' % text, d).name
                elif cname == 'setvalue':
                    node = parse_sql('SET x = %s' % text, d).value
                cls = type(node).__name__
                if cls == 'Constant':
                    out.append((d, cname, 'ok', 'const', node.value))
                elif cls == 'Identifier':
                    out.append((d, cname, 'ok', 'ident', [str(x) for x in node.parts]))
                elif cls == 'Variable':
                    out.append((d, cname, 'ok', 'var', [bool(node.is_system_var), node.value]))
                else:
                    out.append((d, cname, 'ok', 'other:' + cls, None))
            except Exception as e:   # noqa
                out.append((d, cname, 'exc:' + type(e).__name__, None, None))
    return out


def _encode_case(args):
    kind, payload = args
    from mindsdb_sql.parser.ast import Constant, Identifier, Select, BinaryOperation, Tuple, Insert, Update
    res = {}
    try:
        if kind == 'VAR':
            from mindsdb_sql.parser.ast import Variable
            res['to_string'] = Variable(s_of(payload[1]), is_system_var=payload[0]).to_string()
            res['in_where'] = Select(targets=[Variable(s_of(payload[1]), is_system_var=payload[0])]).to_string()
        elif kind == 'VAL':
            v = s_of(payload)
            res['to_string'] = Constant(v).to_string()
            res['in_where'] = Select(targets=[Identifier('a')], from_table=Identifier('t'),
                                     where=BinaryOperation('=', args=[Identifier('c'), Constant(v)])).to_string()
        else:
            parts = [s_of(p) for p in payload]
            res['to_string'] = Identifier(parts=parts).to_string()
    except Exception as e:   # noqa
        res['exc'] = '%s: %s' % (type(e).__name__, e)
    return res


RENDER_VALUES = ['a\\b', 'x\\', "it's", 'a%b', 'a"b', "\\' or 1=1 -- ", 'a:b', 'é\n']
RENDER_SPECS = [('mysql', 't_bq'), ('postgresql', 't_dq'), ('postgres', 't_dq'), ('sqlite', 't_dq'), ('mssql', 't_br'), ('oracle', 't_dq'),
                ('class:mysql', 't_bq'), ('class:postgresql', 't_dq'), ('class:sqlite', 't_dq'), ('class:mssql', 't_br'), ('class:oracle', 't_dq')]


def _render_paths(names):
    import importlib
    from mindsdb_sql.parser.ast import Identifier, Select
    from mindsdb_sql.render.sqlalchemy_render import SqlalchemyRender
    out = []
    for spec, style in RENDER_SPECS:
        try:
            arg = importlib.import_module('sqlalchemy.dialects.' + spec[6:]).dialect if spec.startswith('class:') else spec
            rnd = SqlalchemyRender(arg)
        except Exception as e:   # noqa
            out.append((spec, style, [], None, '%s: %s' % (type(e).__name__, e)))
            continue
        # constants next to the names: a few string values with the characters that targets treat specially
        from mindsdb_sql.parser.ast import Constant, BinaryOperation
        for v in RENDER_VALUES:
            q = Select(targets=[Identifier(parts=['c'])], from_table=Identifier(parts=['t']),
                       where=BinaryOperation('=', args=[Identifier(parts=['c']), Constant(v)]))
            try:
                out.append((spec, style, ('VALUE', [ord(ch) for ch in v]), rnd.get_string(q, with_failback=False), None))
            except Exception as e:   # noqa
                out.append((spec, style, ('VALUE', [ord(ch) for ch in v]), None, '%s: %s' % (type(e).__name__, str(e)[:200])))
        for w in names:
            nm = s_of(w)
            q = Select(targets=[Identifier(parts=[nm]), Identifier(parts=['t', nm], alias=Identifier(parts=[nm]))],
                       from_table=Identifier(parts=['db', nm]))
            try:
                out.append((spec, style, w, rnd.get_string(q, with_failback=False), None))
            except Exception as e:   # noqa
                out.append((spec, style, w, None, '%s: %s' % (type(e).__name__, str(e)[:200])))
    return out


def _encode_many(cases):
    return [_encode_case(c) for c in cases]


def first_bad_unit(kinds, unit_vals, got):
    """Which unit (kind, position class) is the first whose denoted characters are not where they should be."""
    pos = 0
    n = len(kinds)
    for i, (k, dv) in enumerate(zip(kinds, unit_vals)):
        seg = got[pos:pos + len(dv)] if isinstance(got, str) else None
        if seg != dv:
            where = 'only' if n == 1 else ('start' if i == 0 else ('end' if i == n - 1 else 'middle'))
            return k, where
        pos += len(dv)
    return ('extra-characters', 'end')


UNIT_DENOTES = {'dot': '.', 'plain': 'a', 'space': ' ', 'percent': '%', 'nonascii': 'é', 'doubled': None, 'bs-quote': None,
                'bs-otherquote': None, 'bs-bs': '\\', 'otherquote': None, 'backslash': '\\'}


def unit_values(style, kinds):
    q = '"' if style == 'lib_dq' else "'"
    o = "'" if q == '"' else '"'
    m = dict(UNIT_DENOTES)
    m.update({'doubled': q, 'bs-quote': q, 'bs-otherquote': o, 'otherquote': o})
    return [m[k] for k in kinds]


def run(ctx):
    thorough = ctx.tier == 'thorough'
    r = ctx.tlc('LexemeMC', cfg='LexemeMC4.cfg' if thorough else 'LexemeMC3.cfg', name='lexeme_mc', timeout=3000)
    if r.violated or not r.ok:
        raise MachineryError('LexemeMC: the reference is not self-consistent: %s %s' % (r.violated, r.errors[:2]))
    strs = [(v[1], v[2], v[3], v[4]) for v in find_prints(r.out, 'STR')]
    ids = [(v[1], v[2], v[3]) for v in find_prints(r.out, 'ID')]
    vals = [v[1] for v in find_prints(r.out, 'VAL')]
    vrs = [(v[1], v[2], v[3], v[4]) for v in find_prints(r.out, 'VAR')]
    if not vrs:
        raise MachineryError('LexemeMC emitted no variable cases')
    encparts = [v[1] for v in find_prints(r.out, 'PARTS')]
    if not strs or not ids or not vals:
        raise MachineryError('LexemeMC emitted no cases')
    ctx.cov['spec_cases'] = {'str': len(strs), 'id': len(ids), 'val': len(vals), 'parts': len(encparts)}

    # ---------------- decode: strings
    work = [('STR', s_of(t), s_of(v), ['select', 'where', 'inlist', 'using'] + (['dqtable'] if st == 'lib_dq' else []))
            for st, ks, t, v in strs]
    res = pmap(_decode_case, work, chunksize=64)
    n_eval = n_rej = 0
    for (st, ks, t, v), (_, text, exp, _c), rs in zip(strs, work, res):
        for d, cname, status, what, got in rs:
            if status != 'ok':
                n_rej += 1
                continue
            n_eval += 1
            if what == 'ident':
                # a double-quoted token read as a name: the name is the denoted value, as ONE part
                ok = got == [exp] if exp else False
                got_s = '.'.join(got) if got else ''
                label = 'dq-as-name'
            elif what in ('const', 'str'):
                ok = got == exp
                got_s = got
                label = 'literal'
            else:
                continue
            if not ok:
                ctx.violation('decode:%s:%s:%s' % (d, st, label),
                              'the tree does not hold the value the literal denotes',
                              {'text': text, 'dialect': d, 'context': cname, 'expected': exp, 'got': got,
                               'units': ks}, pin=('%s|%s|%s' % (text, d, cname), got))
    # ---------------- decode: identifier paths
    work = [('ID', s_of(t), [s_of(p) for p in parts], ['column', 'table', 'order-by', 'function-arg', 'insert-table', 'update-table',
                                                         'delete-table', 'join-table'] +
             (['alias', 'derived-collist', 'insert-column', 'update-column', 'cte-name', 'table-alias'] if len(parts) == 1 else []))
            for forms, t, parts in ids]
    res = pmap(_decode_case, work, chunksize=64)
    for (forms, t, parts), (_, text, exp, _c), rs in zip(ids, work, res):
        for d, cname, status, what, got in rs:
            if status != 'ok' or what != 'ident':
                n_rej += 1
                continue
            n_eval += 1
            if got != exp:
                ctx.violation('decode-path:%s' % d if cname in ('column', 'table', 'alias') else 'decode-path:%s:%s' % (d, cname),
                              'identifier parts differ from the written path (case, splitting or characters)',
                              {'text': text, 'dialect': d, 'context': cname, 'expected': exp, 'got': got},
                              pin=('%s|%s|%s' % (text, d, cname), got))
    # ---------------- decode: variables (@name, @@name and the three delimited forms)
    work = [('VAR', s_of(t), [bool(sysv), s_of(nm)], ['select', 'where', 'setvar', 'setvalue']) for q, sysv, t, nm in vrs]
    res = pmap(_decode_case, work, chunksize=64)
    n_var = 0
    for (q, sysv, t, nm), (_, text, exp, _c), rs in zip(vrs, work, res):
        for d, cname, status, what, got in rs:
            if status != 'ok' or what != 'var':
                n_rej += 1
                continue
            n_eval += 1
            n_var += 1
            if got != exp:
                form = {0: 'bare', 39: 'sq', 34: 'dq', 96: 'bq'}[q]
                ctx.violation('decode-variable:%s:%s%s' % (d, form, ':system' if sysv else ''),
                              'the tree does not hold the variable name the text denotes',
                              {'text': text, 'dialect': d, 'context': cname, 'expected': exp, 'got': got},
                              pin=('%s|%s|%s' % (text, d, cname), got))
    ctx.cov['variable_decodings'] = n_var
    if not n_var:
        raise MachineryError('no variable form was accepted by any dialect')
    # ---------------- numbers (python oracle)
    from mindsdb_sql import parse_sql
    for d in DIALECTS:
        for t in NUMBERS:
            for sign in ('', '-'):
                txt = ('%s %s' % (sign, t)).strip()
                try:
                    node = parse_sql('SELECT %s' % txt, d).targets[0]
                except Exception:   # noqa
                    n_rej += 1
                    continue
                n_eval += 1
                exp = float(t) if '.' in t else int(t)
                if sign:
                    exp = -exp
                val = getattr(node, 'value', None)
                if type(node).__name__ == 'UnaryOperation':
                    inner = node.args[0]
                    val = -inner.value if isinstance(getattr(inner, 'value', None), (int, float)) else None
                if val != exp or type(val) is not type(exp):
                    ctx.violation('decode-number:%s:%s%s' % (d, 'decimal' if '.' in t else 'integer', ':signed' if sign else ''),
                                  'numeric literal does not keep its value/type',
                                  {'text': txt, 'dialect': d, 'expected': repr(exp), 'got': repr(val)})
    # ---------------- encode: printed constants and identifiers judged by the scanner (TLC)
    # identifier printing is done in ONE process, in the emitted order and again in reverse order, so that a
    # printer whose answer depends on what it printed before shows up (both runs are judged)
    enc_in = [('VAL', v) for v in vals] + [('VAR', [bool(sysv), nm]) for q, sysv, t, nm in vrs]
    enc = pmap(_encode_case, enc_in, chunksize=128)
    seq = [('PARTS', p) for p in encparts]
    enc_in += seq + list(reversed(seq))
    import multiprocessing
    with multiprocessing.get_context('spawn').Pool(2, maxtasksperchild=1) as pool:
        fw, bw = pool.map(_encode_many, [seq, list(reversed(seq))], chunksize=1)
    enc += fw + bw
    traces, meta = [], []
    for (kind, payload), e in zip(enc_in, enc):
        if 'exc' in e:
            ctx.violation('encode:raises:%s' % e['exc'].split(':')[0], 'printing a constant/identifier raised',
                          {'kind': kind, 'payload': payload, 'error': e['exc']})
            continue
        txt = e['to_string']
        if kind == 'VAR':
            for tx in (txt, e['in_where'][len('SELECT '):] if e['in_where'].startswith('SELECT ') else e['in_where']):
                traces.append({'kind': 'var', 'style': 'sys' if payload[0] else 'user', 'text': [ord(ch) for ch in tx],
                               'value': payload[1], 'parts': []})
                meta.append((kind, payload, tx))
        elif kind == 'VAL':
            traces.append({'kind': 'str', 'style': 'lib_sq', 'text': [ord(ch) for ch in txt], 'value': payload, 'parts': []})
            meta.append((kind, payload, txt))
            w = e['in_where']
            pre = 'SELECT a FROM t WHERE c = '
            if w.startswith(pre):
                traces.append({'kind': 'str', 'style': 'lib_sq', 'text': [ord(ch) for ch in w[len(pre):]],
                               'value': payload, 'parts': []})
                meta.append((kind, payload, w))
        else:
            traces.append({'kind': 'id', 'style': '', 'text': [ord(ch) for ch in txt], 'value': [], 'parts': payload})
            meta.append((kind, payload, txt))
    path = ctx.work / 'lexemetraces.json'
    dump_json(path, traces)
    tr = ctx.tlc('LexemeTrace', env={'VERIF_TRACES': path}, name='lexeme_trace', timeout=3000)
    if not tr.ok:
        raise MachineryError('LexemeTrace failed: %s' % tr.errors[:3])
    ver = {x[0]: x[1] for x in tr.prints('ACC')}
    if len(ver) != len(traces):
        raise MachineryError('LexemeTrace judged %d of %d' % (len(ver), len(traces)))
    for i, (kind, payload, txt) in enumerate(meta):
        v = ver[i + 1]
        if v == 'ok':
            continue
        if kind == 'VAR':
            nm = s_of(payload[1])
            cls = 'backquote-in-name' if '`' in nm else 'other'
            ctx.violation('encode-variable:%s' % cls, 'the printed variable does not denote the variable\'s name',
                          {'name': nm, 'system': payload[0], 'printed': txt, 'verdict': v},
                          pin=('var|%s|%s' % (payload[0], nm), [txt, v]))
        elif kind == 'VAL':
            s = s_of(payload)
            ctx.violation('encode:to_string',
                          'the printed literal does not denote the constant value under the library\'s own lexical rules',
                          {'value': s, 'printed': txt, 'verdict': v}, pin=(txt if len(txt) > len(s) + 2 else s, [txt, v]))
        else:
            parts = [s_of(p) for p in payload]
            ctx.violation('encode-path', 'the printed identifier does not denote the given parts',
                          {'parts': parts, 'printed': txt, 'verdict': v}, pin=('|'.join(parts), [txt, v]))
    ctx.cov['traces_validated_against_impl'] = len(traces) + n_eval
    ctx.cov['evaluations'] = n_eval + len(traces)
    ctx.cov['rejected_or_not_applicable'] = n_rej
    ctx.sample({'decode': {'text': s_of(strs[-1][2]), 'denotes': s_of(strs[-1][3]), 'units': strs[-1][1]}})
    ctx.sample({'encode': {'value': s_of(vals[-1]), 'printed': meta[0][2] if meta else ''}})
    ctx.assumptions += ['only escape units with an unambiguous meaning are generated for decoding ('' \\\' \\" \\\\)',
                        'decimals are compared after conversion to float (float precision is accepted)',
                        'a literal the dialect rejects is outside the property (counted, not judged)']
    # ---------------- identifier paths through the SQLAlchemy renderer, for every way a dialect can be named: the rendered
    # statement must consist of exactly its key words and four paths, each denoting the given parts under the TARGET's rules
    tnames = [v[1] for v in find_prints(r.out, 'TNAME')]
    if not tnames:
        raise MachineryError('LexemeMC emitted no target-name cases')
    rres = pmap(_render_paths, [tnames[i:i + 40] for i in range(0, len(tnames), 40)], chunksize=1)
    rtr, rmeta = [], []
    for chunk in rres:
        for spec_, style_, w_, txt_, exc_ in chunk:
            lit = lambda x: {'t': 'lit', 'w': [ord(ch) for ch in x]}    # noqa
            if isinstance(w_, tuple) and w_[0] == 'VALUE':
                if exc_:
                    ctx.violation('render-value:raises:%s' % exc_.split(':')[0], 'rendering a statement with a string constant raised',
                                  {'dialect': spec_, 'value': s_of(w_[1]), 'error': exc_})
                    continue
                c_, t1_ = [ord('c')], [ord('t')]
                rtr.append({'kind': 'tstmt', 'style': style_, 'text': [ord(ch) for ch in txt_], 'value': [], 'parts': [],
                            'segs': [lit('SELECT'), {'t': 'path', 'parts': [c_]}, lit('FROM'), {'t': 'path', 'parts': [t1_]}, lit('WHERE'),
                                     {'t': 'path', 'parts': [c_]}, lit('='),
                                     {'t': 'str', 'style': 'mysql' if style_ == 't_bq' else 'std', 'value': w_[1]}]})
                rmeta.append((spec_, w_[1], txt_))
                continue
            if exc_:
                ctx.violation('render-path:raises:%s' % exc_.split(':')[0], 'rendering a statement whose names contain unusual characters raised',
                              {'dialect': spec_, 'name': s_of(w_), 'error': exc_})
                continue
            t_, db_ = [ord('t')], [ord('d'), ord('b')]
            rtr.append({'kind': 'tstmt', 'style': style_, 'text': [ord(ch) for ch in txt_], 'value': [], 'parts': [],
                        'segs': [lit('SELECT'), {'t': 'path', 'parts': [w_]}, lit(','), {'t': 'path', 'parts': [t_, w_]}, lit('AS'),
                                 {'t': 'path', 'parts': [w_]}, lit('FROM'), {'t': 'path', 'parts': [db_, w_]}]})
            rmeta.append((spec_, w_, txt_))
    path2 = ctx.work / 'lexemetraces_render.json'
    dump_json(path2, rtr)
    tr2 = ctx.tlc('LexemeTrace', env={'VERIF_TRACES': path2}, name='lexeme_trace_render', timeout=3000)
    if not tr2.ok:
        raise MachineryError('LexemeTrace (rendered paths) failed: %s' % tr2.errors[:3])
    ver2 = {x[0]: x[1] for x in tr2.prints('ACC')}
    if len(ver2) != len(rtr):
        raise MachineryError('LexemeTrace judged %d of %d rendered statements' % (len(ver2), len(rtr)))
    for i, (spec_, w_, txt_) in enumerate(rmeta):
        if ver2[i + 1] != 'ok':
            nm = s_of(w_)
            cls = 'long' if len(nm) > 60 else ''.join(sorted({ch if not ch.isalnum() else ('A' if ch.isupper() else ('1' if ch.isdigit() else 'a')) for ch in nm}))
            ctx.violation('render-path:%s:%s' % (spec_.split(':')[0] if spec_.startswith('class') else 'name', ver2[i + 1]),
                          'the rendered identifier does not denote the name held in the tree under the target dialect\'s rules',
                          {'dialect': spec_, 'name': nm, 'rendered': txt_, 'verdict': ver2[i + 1], 'characters': cls})
    ctx.cov['rendered_path_statements'] = len(rtr)
    ctx.cov['traces_validated_against_impl'] += len(rtr)
    ctx.cov['evaluations'] += len(rtr)
    # ---------------- an identifier prints what it holds NOW: print, edit the parts in place (what the grammar's
    # `identifier DOT identifier` action and the planner's qualifier stripping do), print again
    from mindsdb_sql import parse_sql as _ps
    from mindsdb_sql.parser.ast import Identifier as _Id
    n_edit = 0
    for text_ in ('select int1.tbl.a from int1.tbl', 'select `my db`.tbl.`col x` from t', 'select a.b from c.d as e'):
        for edit in ('pop0', 'append', 'setitem', 'insert0', 'alias-parts'):
            tree_ = _ps(text_, 'mindsdb')
            node = tree_.targets[0]
            before = str(node)
            str(tree_)
            if edit == 'pop0':
                node.parts.pop(0)
            elif edit == 'append':
                node.parts.append('zz')
            elif edit == 'setitem':
                node.parts[-1] = 'other name'
            elif edit == 'insert0':
                node.parts.insert(0, 'q')
            else:
                node.alias = _Id(parts=['al'])
                str(node)
                node.alias.parts[0] = 'al 2'
            fresh = _Id(parts=list(node.parts), alias=node.alias)
            n_edit += 1
            if str(node) != str(fresh) or node.to_string() != fresh.to_string():
                ctx.violation('print-stale-after-in-place-edit:%s' % edit,
                              'an identifier that was printed once keeps printing its old parts after they were edited in place',
                              {'text': text_, 'edit': edit, 'printed_before': before, 'prints': str(node), 'holds': [str(p_) for p_ in node.parts]})
    ctx.cov['identifier_in_place_edits'] = n_edit
    return ctx.finish(exhaustive=True)


def replay(ctx, path):
    rec = json.load(open(path))['replay']
    print(json.dumps(rec, indent=1, ensure_ascii=False))
    return 0
