"""C06 -- SQL rendered through SQLAlchemy means the same as the parsed statement.

spec   : SQLSem.tla (queries: the SET of admissible answers; DML: ApplyDml, the next table contents).
cases  : statements over t1(a,b), t2(a,c), t3(b,c): expressions, all join kinds and spellings, subqueries, set
         operations, CTEs, grouping, HAVING, ordering with NULLS FIRST/LAST, LIMIT/OFFSET, CASE, DISTINCT, aliases;
         INSERT / UPDATE / DELETE.  Each is parsed, rendered for sqlite with with_failback=False, and the RENDERED text
         is executed by sqlite3 on small databases (NULLs, duplicates); TLC (SemOracle) decides whether the observed
         rows / table contents are admissible for the ORIGINAL statement under SQLSem.
oracle : the ORIGINAL text is executed too and must be admissible (else the spec is wrong: machinery error).
other targets: the mysql and postgresql renderings must be the sqlite rendering up to identifier quoting and the
         known harmless spellings; anything else is counted as undecided (no engine offline).
"""
import json
import random
import re
import sqlite3

from .common import MachineryError, dump_json
from .corpus import pmap
from .tlaparse import find_prints
from . import sem, planexec

NULL = -99
SCHEMA = {'t1': ['a', 'b'], 't2': ['a', 'c'], 't3': ['b', 'c']}

JOINS = ['join', 'inner join', 'left join', 'left outer join', 'right join', 'right outer join', 'full join',
         'full outer join', 'cross join']
QUERIES = []
for j in JOINS:
    on = '' if j == 'cross join' else ' on t1.a = t2.a'
    QUERIES.append('select t1.a, t1.b, t2.c from t1 %s t2%s' % (j, on))
    QUERIES.append('select t1.a, t2.c from t1 %s t2%s where t2.c = 1 or t1.b is null order by t1.a, t2.c' % (j, on))
    QUERIES.append('select t1.a, t2.c, t3.c from t1 %s t2%s left join t3 on t3.b = t1.b' % (j, on))
QUERIES += [
    'select a, b from t1', 'select * from t1', 'select t1.* from t1', 'select distinct b from t1',
    'select a + b as s, a * 2, a - b, a % 2, -a from t1', 'select a from t1 where not a = 1',
    'select a from t1 where not (a = 1 or b = 2)', 'select a from t1 where a = 1 and b = 2 or a = 2',
    'select a from t1 where a = 1 and (b = 2 or a = 2)', 'select a from t1 where (a + 1) * 2 > b',
    'select a from t1 where a - (b - 1) > 0', 'select a from t1 where a / 2 = 1', 'select a from t1 where a between 1 and 2',
    'select a from t1 where a in (1, 2)', 'select a from t1 where a not in (1, 2)', 'select a from t1 where b is null',
    'select a from t1 where b is not null', 'select a from t1 where a in (select a from t2)',
    'select a from t1 where a not in (select a from t2)', 'select a from t1 where a not in (select a from t2 where a is not null)',
    'select a from t1 where exists (select 1 from t2 where c = 1)', 'select a from t1 where not exists (select 1 from t2 where c = 1)',
    'select a from t1 where a = (select max(a) from t2)', 'select a, (select count(*) from t2) as n from t1',
    'select a, count(*) from t1 group by a', 'select a, count(b), sum(b), min(b), max(b) from t1 group by a',
    'select count(*) from t1', 'select count(distinct b) from t1', 'select a, count(*) from t1 group by a having count(*) > 1',
    'select a, sum(b) as s from t1 group by a having sum(b) > 1 order by a',
    'select a from t1 order by a', 'select a from t1 order by a desc', 'select a, b from t1 order by b desc, a',
    'select a, b from t1 order by b nulls first, a', 'select a, b from t1 order by b nulls last, a',
    'select a, b from t1 order by b desc nulls first, a', 'select a, b from t1 order by b desc nulls last, a',
    'select a from t1 order by a limit 1', 'select a from t1 order by a limit 1 offset 1', 'select a, b from t1 order by a, b limit 2',
    'select a from t1 union select a from t2', 'select a from t1 union all select a from t2',
    # boundary limits; chains of set operations whose links differ in ALL / DISTINCT and in kind
    'select a from t1 order by a limit 0', 'select a from t1 order by a limit 0 offset 1', 'select a from t1 order by a limit 1, 0',
    'select a from t1 order by a limit 2 offset 0', 'select * from (select a from t1 order by a limit 0 offset 1) as s',
    'select a from t1 union select a from t2 union all select b from t3', 'select a from t1 union all select a from t2 union select b from t3',
    'select a from t1 union select a from t2 union select b from t3', 'select a from t1 union all select a from t2 union all select b from t3',
    'select a from t1 except select a from t2 union select b from t3', 'select a from t1 except select a from t2 except select b from t3',
    'select a from t1 union select a from t2 except select b from t3', 'select a from t1 intersect select a from t2 union all select b from t3',
    'select * from (select a from t1 union select a from t2 union all select b from t3) as s',
    'with c as (select a from t1 union select a from t2 union all select a from t1) select a from c',
    'select a from t1 intersect select a from t2', 'select a from t1 except select a from t2',
    'with c as (select a, c from t2) select t1.a, c.c from t1 join c on t1.a = c.a',
    'with c as (select a from t2 where c = 1) select a from t1 where a in (select a from c)',
    'select s.a from (select a, b from t1 where b = 1) as s', 'select s.a, t2.c from (select a from t1) as s join t2 on s.a = t2.a',
    'select case when a = 1 then 10 when a = 2 then 20 else 30 end from t1', 'select case a when 1 then 10 else 0 end from t1',
    'select case when b is null then 0 end from t1', 'select x.a as k, x.b from t1 as x where x.b = 1',
    'select t1.a, t2.a from t1, t2 where t1.a = t2.a', 'select a from t1 where a = 1 and b = 1 and a = 1',
    'select cast(a as int) from t1', 'select a from t1 where a <> 1', 'select a from t1 where a != 1 and a >= 1 and a <= 2 and a < 3',
    'select count(*) from t1 join t2 on t1.a = t2.a', 'select t1.a from t1 left join t2 on t1.a = t2.a and t2.c = 1',
    'select t1.a from t1 left join t2 on t1.a = t2.a where t2.a is null',
    # sub-queries whose own FROM mentions a table of the outer query (must stay uncorrelated)
    'select a from t1 where exists (select 1 from t1, t2 where t1.a = t2.a)',
    'select a from t1 where a in (select t2.a from t1, t2 where t1.b = t2.c)',
    'select a, (select count(*) from t1, t2 where t1.a = t2.a) as n from t1',
    'select a from t1 where a in (select a from t1 where b = 1)',
    'select a from t1 as x where exists (select 1 from t1 where b = 2)',
    # ordering inside OVER (): direction, NULLS FIRST / LAST, lower-case spellings
    'select a, sum(b) over (order by a desc nulls first) from t1', 'select a, sum(b) over (order by a nulls last) from t1',
    'select a, count(*) over (partition by b order by a desc) from t1', 'select a, sum(b) over (order by a asc nulls first, b desc nulls last) from t1',
    'select a, row_number() over (order by b desc nulls last, a) from t1', 'select a, sum(a) over (order by a rows between unbounded preceding and current row) from t1',
    # join chains mixing kinds
    'select t1.a, t2.c, t3.c from t1 left join t2 on t1.a = t2.a join t3 on t3.b = t1.b',
    'select t1.a, t2.c, t3.c from t1 full join t2 on t1.a = t2.a left join t3 on t3.b = t1.b',
    'select t1.a, t2.c, t3.c from t1 full join t2 on t1.a = t2.a join t3 on t3.b = t1.b',
    'select t1.a, t2.c, t3.c from t1 join t2 on t1.a = t2.a left join t3 on t3.b = t1.b join t2 as u on u.a = t1.a',
]
DML = [
    'insert into t1 (a, b) values (3, 4)', 'insert into t1 (a, b) values (3, 4), (5, null)', 'insert into t1 (b, a) values (7, 8)',
    'insert into t1 (a) values (9)', 'insert into t1 (a, b) select a, c from t2', 'insert into t1 (a, b) select a, c from t2 where c = 1',
    'update t1 set b = 5', 'update t1 set b = 5 where a = 1', 'update t1 set b = a + 1, a = 0 where b is null',
    'update t1 set a = a + 1 where not a = 1', 'delete from t1', 'delete from t1 where a = 1', 'delete from t1 where b is null or a = 2',
    'delete from t1 where a in (select a from t2)',
]


def contents(rng):
    rows = planexec.ROWSET
    k = rng.choice([0, 1, 2, 2, 3])
    return [list(rng.choice(rows)) for _ in range(k)]


def make_db(asg):
    con = sqlite3.connect(':memory:')
    for (name, cols), rows in zip(SCHEMA.items(), asg):
        con.execute('create table %s (%s)' % (name, ', '.join(cols)))
        for r in rows:
            con.execute('insert into %s values (?, ?)' % name, [None if v == NULL else v for v in r])
    return con


def fix(v):
    return NULL if v is None else v


# databases without ties for the engine-differential pass: (t1, t2, t3) rows, NULL encoded as in the semantic pass
DIFF_DBS = [[[[1, 5], [2, NULL], [NULL, 7], [3, 6]], [[1, 1], [2, 2], [4, NULL]], [[5, 1], [6, 2]]],
            [[[3, 1], [1, 2], [2, 3]], [[1, 3], [3, 1]], [[1, 1]]],
            [[[NULL, NULL], [1, 1]], [[1, NULL]], [[NULL, 2]]],
            [[[2, 9], [1, 8], [4, NULL], [3, 7], [NULL, 6]], [[2, 2], [3, 3]], [[9, 1], [8, 2], [7, 3]]]]


def _spellings(sql, rend=None):
    """The same target named in another way (the alias, a sqlalchemy dialect class, mssql / oracle too): the rendering must be
    the same text as for the dialect's name."""
    import importlib
    from mindsdb_sql import parse_sql
    from mindsdb_sql.render.sqlalchemy_render import SqlalchemyRender

    def one(arg):
        try:
            return SqlalchemyRender(arg).get_string(parse_sql(sql, 'mindsdb'), with_failback=False)
        except Exception as e:   # noqa
            return 'EXC:' + type(e).__name__
    rend = dict(rend or {})
    alt = {}
    for d, spelled in (('mysql', 'class:mysql'), ('postgresql', 'postgres'), ('postgresql', 'class:postgresql'), ('sqlite', 'class:sqlite'),
                       ('mssql', 'class:mssql'), ('oracle', 'class:oracle')):
        if rend.get(d) is None:
            rend[d] = one(d)
        t_ = one(importlib.import_module('sqlalchemy.dialects.' + spelled[6:]).dialect if spelled.startswith('class:') else spelled)
        if t_ != rend[d]:
            alt[spelled] = [rend[d], t_]
    return rend, alt


TYPES = ['int', 'integer', 'bigint', 'smallint', 'float', 'double', 'real', 'decimal', 'numeric', 'char', 'varchar', 'text', 'date', 'datetime',
         'timestamp', 'time', 'boolean', 'bool', 'int8', 'float8', 'signed', 'unsigned', 'binary', 'json']
SPELLING_STMTS = ['select cast(a as %s) from t1' % t_ for t_ in TYPES] + ['select a::%s from t1' % t_ for t_ in TYPES[:12]] + [
    'insert into t1 (a, b) values (1, 2), (2, 3), (3, 4)', 'select a from t1 limit 2 offset 1', 'select a from t1 order by a nulls first limit 1',
    'select a, count(*) from t1 group by a having count(*) > 1', 'select a from t1 where b like \'a%\'', 'select cast(a as float) / 2 from t1',
    'select a from t1 where a in (select a from t2) limit 1', 'select distinct a from t1 order by a desc',
    'create table t9 (a int, b float, c text, d date)', 'select coalesce(a, 0), length(\'x\'), round(b) from t1',
    'update t1 set a = cast(b as float) where b = 1', 'delete from t1 where a = 1']


def _render(sql):
    from mindsdb_sql import parse_sql
    from mindsdb_sql.render.sqlalchemy_render import SqlalchemyRender
    out = {'sql': sql}
    try:
        tree = parse_sql(sql, 'mindsdb')
    except Exception as e:   # noqa
        out['status'] = 'parse-error:' + type(e).__name__
        return out
    try:
        if type(tree).__name__ in ('Insert', 'Update', 'Delete'):
            out['dml'] = sem.dml(tree)
        else:
            out['orig'] = sem.query(tree)
    except sem.Unsupported as e:
        out['status'] = 'unsupported:%s' % e
        rend_, out['spelling_diffs'] = _spellings(sql)
        # outside the reference semantics (window functions ..): kept for the engine-differential pass below
        if type(tree).__name__ == 'Select' and isinstance(rend_.get('sqlite'), str) and not rend_['sqlite'].startswith('EXC:'):
            out['rendered_outside_semantics'] = rend_['sqlite']
        return out
    rend = {}
    for d in ('sqlite', 'mysql', 'postgresql'):
        try:
            rend[d] = SqlalchemyRender(d).get_string(parse_sql(sql, 'mindsdb'), with_failback=False)
        except Exception as e:   # noqa
            rend[d] = None
            out.setdefault('render_errors', {})[d] = '%s: %s' % (type(e).__name__, str(e)[:100])
    out['spelling_diffs'] = _spellings(sql, rend)[1]
    out['rendered'] = rend
    out['status'] = 'ok' if rend.get('sqlite') else 'not-rendered'
    return out


def norm_text(s):
    s = re.sub(r'[`"\[\]]', '', s)
    s = re.sub(r'\s+', ' ', s).strip().lower()
    return s


def wrap_compound_operands(text):
    """`(X) UNION ..` -> `SELECT * FROM (X) UNION ..` for a leading parenthesised operand (also inside FROM ( .. ) / WITH)."""
    import re as _re

    def fix_at(t, i):
        depth, j = 0, i
        while j < len(t):
            if t[j] == '(':
                depth += 1
            elif t[j] == ')':
                depth -= 1
                if depth == 0:
                    break
            j += 1
        rest = t[j + 1:].lstrip().upper()
        if t[i + 1:].lstrip().upper().startswith('SELECT') and rest.startswith(('UNION', 'EXCEPT', 'INTERSECT')):
            return t[:i] + 'SELECT * FROM ' + t[i:j + 1] + ' AS _w' + t[j + 1:]
        return t
    out = text
    for m in list(_re.finditer(r'(^|\(|AS\s*\n?)\s*\((?=\s*SELECT)', text, _re.I))[::-1]:
        k = out.find('(', m.end() - 1)
        if k >= 0:
            out = fix_at(out, k)
    return out


def run(ctx):
    thorough = ctx.tier == 'thorough'
    rng = random.Random(ctx.seed + 6)
    stmts = QUERIES + DML
    # the same statements with other white space inside their two-word keywords (a spelling the library rejects is skipped)
    import re as _re
    two = _re.compile(r'\b(nulls first|nulls last|order by|group by|is not|not in|not like|left join|full join|union all|is null|not exists)\b', _re.I)
    for q in list(QUERIES + DML):
        if two.search(q):
            for gap in ('  ', '\n\t', ' \t '):
                stmts.append(two.sub(lambda m_: m_.group(1).replace(' ', gap), q))
    stmts = stmts + [q for q in SPELLING_STMTS if q not in stmts]
    rendered = pmap(_render, stmts, chunksize=8)
    tables = [{'db': 'main', 'name': n, 'cols': c} for n, c in SCHEMA.items()]
    obs, meta = [], []
    status = {}
    ndb = 12 if thorough else 5
    undecided_other = 0
    n_diff = [0]
    for r in rendered:
        st = r['status'].split(':')[0]
        status[st] = status.get(st, 0) + 1
        if r.get('rendered_outside_semantics'):
            # statements the TLA+ semantics does not cover: the engine itself is the reference -- original and rendered text on
            # sqlite3 over databases WITHOUT ties (all values distinct, one NULL per column), compared as bags (as lists when the
            # statement ends in ORDER BY).  Weaker than the semantic judgement (one engine, four databases); stated in the evidence.
            for asg in DIFF_DBS:
                try:
                    want_ = [[fix(v) for v in row] for row in make_db(asg).execute(r['sql'])]
                except sqlite3.Error:
                    break
                try:
                    got_ = [[fix(v) for v in row] for row in make_db(asg).execute(r['rendered_outside_semantics'])]
                except sqlite3.Error as e:
                    got_ = 'sqlite error: %s' % e
                ordered_ = ' order by ' in r['sql'].lower().rsplit(')', 1)[-1]
                n_diff[0] += 1
                same_ = got_ == want_ if ordered_ else (isinstance(got_, list) and sorted(map(repr, got_)) == sorted(map(repr, want_)))
                if not same_:
                    ctx.violation('meaning-changed:engine-differential:%s' % ('window' if ' over ' in r['sql'].lower() else 'other'),
                                  'sqlite3 returns other rows for the rendered text than for the original text',
                                  {'sql': r['sql'], 'rendered': r['rendered_outside_semantics'], 'database': asg, 'original_rows': want_,
                                   'rendered_rows': got_})
                    break
        for spelled, (t_name, t_alt) in (r.get('spelling_diffs') or {}).items():
            ctx.violation('rendering-depends-on-how-the-dialect-is-named:%s' % spelled,
                          'the renderer built from an alias / a dialect class renders another text than the one built from the dialect\'s name',
                          {'sql': r['sql'], 'by_name': t_name, 'by_other_spelling': t_alt, 'spelling': spelled})
        if st != 'ok':
            continue
        # other targets: same text up to quoting (no engine offline)
        base = norm_text(r['rendered']['sqlite'])
        for d in ('mysql', 'postgresql'):
            t = r['rendered'].get(d)
            if t is not None and norm_text(t) != base:
                undecided_other += 1
        for _ in range(ndb):
            asg = [contents(rng) for _ in SCHEMA]
            for which in ('original', 'rendered'):
                text = r['sql'] if which == 'original' else r['rendered']['sqlite']
                con = make_db(asg)
                try:
                    if 'dml' in r:
                        con.execute(text)
                        tname = r['dml']['table']
                        rows = [[fix(v) for v in row] for row in con.execute('select * from %s' % tname)]
                        ti = list(SCHEMA).index(tname) + 1
                        o = {'dml': r['dml'], 'table': ti, 'tables': tables, 'asg': asg, 'rows': rows, 'defdb': 'main'}
                    else:
                        rows = [[fix(v) for v in row] for row in con.execute(text)]
                        o = {'orig': r['orig'], 'tables': tables, 'asg': asg, 'rows': rows, 'defdb': 'main'}
                except sqlite3.Error as e:
                    if which != 'rendered':
                        break
                    # a parenthesised compound operand `(a UNION b) UNION ALL c` is not sqlite syntax: report it, then judge the
                    # meaning of the rendering with the operand wrapped as a derived table
                    t2 = wrap_compound_operands(text)
                    rows = None
                    if t2 != text and 'dml' not in r:
                        try:
                            rows = [[fix(v) for v in row] for row in make_db(asg).execute(t2)]
                        except sqlite3.Error:
                            rows = None
                    nested = t2 != text
                    ctx.violation('rendered-text-not-executable' + (':nested-set-operation' if nested else ''),
                                  'sqlite3 cannot execute the text rendered for sqlite: %s' % e,
                                  {'sql': r['sql'], 'rendered': text}, pin=(r['sql'], 'not-executable'))
                    if rows is None:
                        break
                    o = {'orig': r['orig'], 'tables': tables, 'asg': asg, 'rows': rows, 'defdb': 'main'}
                if any((not isinstance(v, int)) for row in rows for v in row):
                    break
                obs.append(o)
                meta.append((r, which, asg, rows))
    if not obs:
        raise MachineryError('nothing could be executed')
    path = ctx.work / 'c06_obs.json'
    dump_json(path, obs)
    tr = ctx.tlc('SemOracle', env={'VERIF_OBS': path}, name='semoracle', timeout=3000)
    if not tr.ok:
        raise MachineryError('SemOracle failed: %s' % tr.errors[:3])
    bad = {v[1] - 1 for v in find_prints(tr.out, 'DIFF')}
    for i in sorted(bad):
        r, which, asg, rows = meta[i]
        if which == 'original':
            raise MachineryError('reference semantics disagrees with sqlite3 on the ORIGINAL text (spec bug): %r db=%r rows=%r'
                                 % (r['sql'], asg, rows))
    for i in sorted(bad):
        r, which, asg, rows = meta[i]
        tree_kind = 'dml' if 'dml' in r else 'query'
        feat = []
        low = r['sql'].lower()
        for key in ('left outer join', 'right outer join', 'full outer join', 'right join', 'full join', 'left join', 'cross join',
                    'nulls first', 'nulls last', ' not ', ' union', ' intersect', ' except', 'having', 'case', 'offset', 'insert',
                    'update', 'delete'):
            if key in low:
                feat.append(key.strip().replace(' ', '-'))
        ctx.violation('meaning-changed:%s:%s' % (tree_kind, '+'.join(feat[:2]) or 'plain'),
                      'executing the text rendered for sqlite does not have the effect of the original statement',
                      {'sql': r['sql'], 'rendered': r['rendered']['sqlite'], 'database': asg, 'observed': rows},
                      pin=(r['sql'], 'meaning-changed'))
    ctx.cov['programs'] = len([r for r in rendered if r['status'] == 'ok'])
    ctx.cov['disagreements_checked'] = len(bad)
    ctx.cov['evaluations'] = len(obs)
    ctx.cov['engine_differential_executions_outside_semantics'] = n_diff[0]
    ctx.cov['render_status'] = status
    ctx.cov['other_targets_textually_different_from_sqlite_rendering'] = undecided_other
    for r in rendered[::max(1, len(rendered) // 5)]:
        if r['status'] == 'ok':
            ctx.sample({'sql': r['sql'], 'rendered_sqlite': r['rendered']['sqlite']})
    ctx.assumptions += ['statements outside the TLA+ semantics (window functions) are judged by sqlite3 itself on four tie-free databases only',
                        'only the sqlite rendering is executed; mysql/postgresql renderings are compared textually with it',
                        'window functions are outside the reference semantics (not judged)']
    return ctx.finish(exhaustive=False)


def replay(ctx, path):
    rec = json.load(open(path))['replay']
    print(json.dumps(_render(rec['sql']), indent=1)[:3000])
    return 0
