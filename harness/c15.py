"""C15 -- a time-series model receives exactly its context window plus the selected rows.

spec   : TSWindow.tla -- Admissible(spec, table): the SET of admissible model inputs (ties at the window boundary may be
         chosen freely); PlanExec runs the data part of the real plan (DISTINCT partition fetch, map-reduce with $var
         injection, multiple fetches with ORDER BY/LIMIT) exploring every admissible outcome, over all small tables
         with ties, NULL times and empty partitions; the rows handed to the model must be admissible.
cases  : 9 time conditions x partition filters x window 1..2 x 0..2 group columns x model on the left/right x LIMIT.
also   : output_time_filter is the user's condition; LIMIT is applied after the join; ORDER BY / GROUP BY / HAVING /
         OFFSET / filters on foreign columns are refused with PlanningException.
"""
import copy
import json
import random

from .common import MachineryError
from .corpus import pmap
from . import planexec, sem

NULL = -99
CONDS = {
    '>': ('t.ts > 1', {'op': '>', 'v': 1, 'v2': 0}),
    '>=': ('t.ts >= 1', {'op': '>=', 'v': 1, 'v2': 0}),
    '=': ('t.ts = 1', {'op': '=', 'v': 1, 'v2': 0}),
    '<': ('t.ts < 2', {'op': '<', 'v': 2, 'v2': 0}),
    '<=': ('t.ts <= 2', {'op': '<=', 'v': 2, 'v2': 0}),
    'between': ('t.ts between 1 and 2', {'op': 'between', 'v': 1, 'v2': 2}),
    '>latest': ('t.ts > latest', {'op': '>latest', 'v': 0, 'v2': 0}),
    '=latest': ('t.ts = latest', {'op': '=latest', 'v': 0, 'v2': 0}),
    'none': ('', {'op': 'none', 'v': 0, 'v2': 0}),
}
GROUPS = {0: ('ts1', ['g', 'ts'], []), 1: ('ts1', ['g', 'ts'], ['g']), 2: ('ts2', ['g', 'h', 'ts'], ['g', 'h'])}
REFUSED = ['select * from int1.ts1 as t join mindsdb.m as m where t.ts > 1 order by t.ts',
           'select t.g from int1.ts1 as t join mindsdb.m as m where t.ts > 1 group by t.g',
           'select t.g from int1.ts1 as t join mindsdb.m as m where t.ts > 1 group by t.g having count(*) > 1',
           'select * from int1.ts1 as t join mindsdb.m as m where t.ts > 1 limit 2 offset 1',
           'select * from int1.ts1 as t join mindsdb.m as m where t.ts > 1 and t.other = 3']
# a column that is neither the order column nor a partition column, in EVERY operand position of every allowed operator
for _op in ('>', '>=', '=', '<', '<='):
    REFUSED += ['select * from int1.ts1 as t join mindsdb.m as m where t.ts %s t.other' % _op,
                'select * from int1.ts1 as t join mindsdb.m as m where t.other %s 1 and t.ts > 1' % _op,
                'select * from int1.ts1 as t join mindsdb.m as m where t.ts > 1 and t.g %s t.other' % _op,
                'select * from mindsdb.m as m join int1.ts1 as t where t.ts > 1 and 1 %s t.other' % _op]
for _a, _b, _c in (('t.other', '1', '2'), ('t.ts', 't.other', '2'), ('t.ts', '1', 't.other'), ('t.g', '1', 't.other'), ('t.g', 't.other', '2')):
    REFUSED += ['select * from int1.ts1 as t join mindsdb.m as m where %s between %s and %s' % (_a, _b, _c),
                'select * from int1.ts1 as t join mindsdb.m as m where t.ts > 1 and %s between %s and %s' % (_a, _b, _c)] \
        if _a != 't.ts' else ['select * from int1.ts1 as t join mindsdb.m as m where %s between %s and %s' % (_a, _b, _c)]
REFUSED += ['select * from int1.ts1 as t join mindsdb.m as m where t.ts > 1 and t.g in (1, t.other)',
            'select * from int1.ts1 as t join mindsdb.m as m where t.ts > 1 and t.other in (1, 2)',
            'select * from int1.ts1 as t join mindsdb.m as m where t.ts > 1 and t.g in (t.other)']


def catalog(window, gcols):
    return dict(integrations=['int1'], default_namespace='mindsdb',
                predictor_metadata=[{'name': 'm', 'integration_name': 'mindsdb', 'timeseries': True, 'window': window,
                                     'order_by_column': 'ts', 'group_by_columns': list(gcols)}])


def build():
    cases = []
    # every comparison also written value-first (1 < t.ts for t.ts > 1): the same condition, the same window
    VF = {'>': '1 < t.ts', '>=': '1 <= t.ts', '=': '1 = t.ts', '<': '2 > t.ts', '<=': '2 >= t.ts', '>latest': 'latest < t.ts'}
    for ck, (ctext, cspec) in list(CONDS.items()) + [(k_ + '~vf', (VF[k_], CONDS[k_][1])) for k_ in VF]:
        vf_ = ck.endswith('~vf')
        ck = ck.split('~')[0]
        for ng, (tab, cols, gcols) in GROUPS.items():
            for window in (1, 2):
                for pf in ([], [['g', 1]]) if gcols else ([],):
                    for side in ('right', 'left'):
                        for limit in (None, 0, 1, 2):
                            pfc = ['t.%s = %d' % (c, v) for c, v in pf]
                            shapes = {'flat': ' and '.join([c for c in [ctext] + pfc if c])}
                            if ctext and pfc:
                                # the same conjunction written in other shapes (filters first; time filter in a group)
                                shapes['filters-first'] = ' and '.join(pfc + [ctext])
                                shapes['time-in-group'] = '%s and (%s and %s)' % (pfc[0], pfc[0], ctext)
                                shapes['group-first'] = '(%s and %s) and %s' % (ctext, pfc[0], pfc[0])
                            if vf_ and (limit not in (None, 1) or side == 'left'):
                                continue
                            if limit is None and not vf_ and ck in ('>', '>=', '=', '<', '<=', 'between'):
                                # the bound written as a typed literal / in parentheses (the same number, another node kind)
                                import re as _re
                                for bk, fn in (('cast', lambda m: 'cast(%s as int)' % m.group(0)), ('colons', lambda m: '%s::int' % m.group(0)),
                                               ('parens', lambda m: '(%s)' % m.group(0))):
                                    shapes['bound-' + bk] = _re.sub(r'(?<![\w.])\d+(?![\w.])', fn, shapes['flat'].split(' and ')[0]) + \
                                        ''.join(' and ' + x for x in shapes['flat'].split(' and ')[1:])
                            for shape, wtxt in shapes.items():
                                frm = ('int1.%s as t join mindsdb.m as m' % tab) if side == 'right' else \
                                      ('mindsdb.m as m join int1.%s as t' % tab)
                                sql = 'select * from %s%s%s' % (frm, (' where ' + wtxt) if wtxt else '',
                                                             ' limit %d' % limit if limit is not None else '')
                                spec = dict(cspec, on=1, window=window, tcol='ts', gcols=gcols, pf=pf)
                                cases.append({'sql': sql, 'spec': spec, 'tab': tab, 'cols': cols, 'window': window,
                                              'gcols': gcols, 'cond': ck, 'side': side, 'limit': limit, 'pf': pf, 'ng': ng,
                                              'shape': shape})
    # the data side written as a sub-select with its own (larger) LIMIT: the statement's LIMIT is still the one applied after the join
    for ng, (tab, cols, gcols) in GROUPS.items():
        for window in (1, 2):
            for ck in ('>', 'none', '<'):
                for limit in (1, 2):
                    ctext, cspec = CONDS[ck]
                    sql = 'select * from (select * from int1.%s limit 10) as t join mindsdb.m as m%s limit %d' % (
                        tab, (' where ' + ctext) if ctext else '', limit)
                    spec = dict(cspec, on=1, window=window, tcol='ts', gcols=gcols, pf=[])
                    cases.append({'sql': sql, 'spec': spec, 'tab': tab, 'cols': cols, 'window': window, 'gcols': gcols, 'cond': ck,
                                  'side': 'right', 'limit': limit, 'pf': [], 'ng': ng, 'shape': 'subselect-data-inner-limit',
                                  'structural_only': True})
    # the same joins executed as prepared statements: a partition filter written as an IN list that mixes a placeholder with a
    # literal and covers every partition (so it filters nothing), the time bound given as a parameter
    for ng, (tab, cols, gcols) in GROUPS.items():
        if not gcols:
            continue
        for window in (1, 2):
            for ck, op in (('>', '>'), ('>=', '>='), ('<', '<')):
                v = 1 if op != '<' else 2
                sql = 'select * from int1.%s as t join mindsdb.m as m where t.g in (?, 2) and t.ts %s ?' % (tab, op)
                spec = dict(CONDS[ck][1], on=1, window=window, tcol='ts', gcols=gcols, pf=[])
                cases.append({'sql': sql, 'spec': spec, 'tab': tab, 'cols': cols, 'window': window, 'gcols': gcols, 'cond': ck,
                              'side': 'right', 'limit': None, 'pf': [], 'ng': ng, 'shape': 'prepared-inlist', 'params': [1, v]})
    return cases


def rowset(cols):
    rows = []
    tsv = [NULL, 0, 1, 2, 3]
    if len(cols) == 2:
        for g in (1, 2):
            for t in tsv:
                rows.append([g, t])
    else:
        for g, h in ((1, 1), (1, 2), (2, 1)):
            for t in (NULL, 1, 2, 3):
                rows.append([g, h, t])
    return rows


def _plan(c):
    from mindsdb_sql import parse_sql
    from mindsdb_sql.planner import plan_query
    from mindsdb_sql.exceptions import PlanningException
    from .project import proj, jdump

    def norm(node):
        """condition with the table qualifier of its column dropped"""
        n = copy.deepcopy(node)
        for a in getattr(n, 'args', []):
            if type(a).__name__ == 'Identifier':
                a.parts = [a.parts[-1]]
        mir = {'<': '>', '<=': '>=', '>': '<', '>=': '<=', '=': '='}
        if type(n).__name__ == 'BinaryOperation' and len(n.args) == 2 and type(n.args[0]).__name__ != 'Identifier' \
                and type(n.args[1]).__name__ == 'Identifier' and str(n.op) in mir:
            n.op, n.args = mir[str(n.op)], [n.args[1], n.args[0]]      # value-first spelling of the same comparison
        return jdump(proj(n))
    out = dict(c)
    try:
        # earlier statements of the same process (a parser must not carry anything over from them)
        for pre in ('select (latest) as x from t', 'select latest as y, (latest) from t where (a) > (latest)'):
            try:
                parse_sql(pre, 'mindsdb')
            except Exception:   # noqa
                pass
        tree = parse_sql(c['sql'], 'mindsdb')
        user_filter = None
        if c['cond'] != 'none':
            w = tree.where
            # the user's time condition: the comparison on the order column
            found = []

            def walk(n):
                if type(n).__name__ == 'BinaryOperation' and str(n.op).lower() == 'and':
                    for a in n.args:
                        walk(a)
                elif any(type(a).__name__ == 'Identifier' and str(a.parts[-1]).lower() == 'ts' for a in getattr(n, 'args', [])):
                    found.append(n)
            walk(w)
            user_filter = norm(found[0]) if found else None
        if c.get('params') is not None:
            from mindsdb_sql.planner.query_planner import QueryPlanner
            pl_ = QueryPlanner(**catalog(c['window'], c['gcols']))
            for st_ in pl_.prepare_steps(parse_sql(c['sql'], 'mindsdb')) or []:
                # answer the planner's questions about columns the way an executor would
                k_ = type(st_).__name__
                if k_ == 'GetTableColumns':
                    al = ('int1', str(st_.table), str(st_.table))
                    st_.set_result({'values': [], 'columns': {al: [{'name': x_, 'type': 'int'} for x_ in c['cols']]}, 'tables': [al]})
                elif k_ == 'GetPredictorColumns':
                    al = ('mindsdb', 'm', 'm')
                    st_.set_result({'values': [], 'columns': {al: [{'name': x_, 'type': 'int'} for x_ in c['cols'] + ['y']]}, 'tables': [al]})
                else:
                    st_.set_result(None)
            plan = type('P', (), {})()
            plan.steps = list(pl_.execute_steps(list(c['params'])) or [])
            user_filter = None      # the bound is a parameter: the output filter is not compared textually
        else:
            plan = plan_query(parse_sql(c['sql'], 'mindsdb'), **catalog(c['window'], c['gcols']))
    except (PlanningException, NotImplementedError) as e:
        out['status'] = 'refused:%s' % str(e)[:80]
        return out
    except Exception as e:   # noqa
        out['status'] = 'internal:%s:%s' % (type(e).__name__, str(e)[:80])
        return out
    kinds = [type(s).__name__ for s in plan.steps]
    out['kinds'] = kinds
    ap = [s for s in plan.steps if type(s).__name__ == 'ApplyTimeseriesPredictorStep']
    if len(ap) != 1:
        out['status'] = 'no-single-apply'
        return out
    otf = ap[0].output_time_filter
    out['otf_ok'] = c.get('params') is not None or (otf is None and user_filter is None) or (otf is not None and user_filter is not None and norm(otf) == user_filter)
    out['otf'] = str(otf)
    ji = kinds.index('JoinStep') if 'JoinStep' in kinds else -1
    out['limit_after_join'] = ('LimitOffsetStep' in kinds[ji + 1:]) if ji >= 0 else False
    out['limit_value'] = next((getattr(s.limit, 'value', s.limit) for s in plan.steps if type(s).__name__ == 'LimitOffsetStep'), None)
    if c.get('structural_only'):
        out['status'] = 'structural-only'
        return out
    try:
        steps = sem.plan_steps(plan, upto='ApplyTimeseriesPredictorStep')
    except sem.Unsupported as e:
        out['status'] = 'unsupported-plan:%s' % e
        return out
    df = getattr(ap[0].dataframe, 'step_num', None)
    if df != len(steps) - 1:
        out['status'] = 'model-input-is-not-the-data-step'
        return out
    out['status'] = 'ok'
    out['fetches'] = [str(getattr(s, 'query', '')) for s in plan.steps if type(s).__name__ == 'FetchDataframeStep'] + \
                     [str(x.query) for s in plan.steps if type(s).__name__ in ('MapReduceStep', 'MultipleSteps')
                      for x in (getattr(s, 'steps', None) or getattr(getattr(s, 'step', None), 'steps', None) or [getattr(s, 'step', None)])
                      if x is not None and hasattr(x, 'query')]
    out['plan'] = {'orig': {'q': 'none'}, 'steps': steps, 'defdb': '', 'ts': c['spec'],
                   'tables': [{'db': 'int1', 'name': c['tab'], 'cols': c['cols'], 'rowset': rowset(c['cols']),
                               'maxrows': 3}]}
    return out


def _refused(sql):
    from mindsdb_sql import parse_sql
    from mindsdb_sql.planner import plan_query
    from mindsdb_sql.exceptions import PlanningException
    try:
        plan_query(parse_sql(sql, 'mindsdb'), **catalog(2, ['g']))
        return 'accepted'
    except PlanningException:
        return 'PlanningException'
    except Exception as e:   # noqa
        return type(e).__name__


def run(ctx):
    thorough = ctx.tier == 'thorough'
    rng = random.Random(ctx.seed + 15)
    cases = build()
    planned = pmap(_plan, cases, chunksize=16)
    status = {}
    ok = []
    for p in planned:
        st = p['status'].split(':')[0]
        status[st] = status.get(st, 0) + 1
        coord = '%s:groups=%d:model-%s' % (p['cond'], p['ng'], p['side'])
        if st == 'internal':
            ctx.violation('planning-internal-error:%s' % coord, p['status'], {'sql': p['sql']}, pin=(p['sql'], p['status']))
        elif st == 'refused':
            ctx.violation('refused:%s' % coord, 'a supported time-series join is refused: ' + p['status'], {'sql': p['sql']},
                          pin=(p['sql'], 'refused'))
        elif st in ('no-single-apply', 'model-input-is-not-the-data-step'):
            ctx.violation('%s:%s' % (st, coord), st, {'sql': p['sql'], 'steps': p.get('kinds')}, pin=(p['sql'], st))
        elif st in ('ok', 'structural-only'):
            if not p['otf_ok'] and st == 'ok':
                ctx.violation('output-filter-not-the-users-condition:%s' % p['cond'],
                              'the output time filter handed to the model step is not the user\'s time condition',
                              {'sql': p['sql'], 'output_time_filter': p['otf']}, pin=(p['sql'], p['otf']))
            want_limit = p['limit'] is not None
            if p['limit_after_join'] != want_limit or (want_limit and p['limit_value'] != p['limit']):
                ctx.violation('limit-step:%s' % ('missing-or-wrong' if want_limit else 'spurious'),
                              'LIMIT must be applied after the join (and only when the query has one)',
                              {'sql': p['sql'], 'steps': p['kinds']}, pin=(p['sql'], [p['limit_after_join'], p['limit_value']]))
            if st == 'ok':
                ok.append(p)
    for sql in REFUSED:
        r = _refused(sql)
        if r != 'PlanningException':
            ctx.violation('not-refused:%s' % r, 'ORDER BY / GROUP BY / HAVING / OFFSET / a filter on a foreign column must be '
                          'refused with PlanningException', {'sql': sql}, pin=(sql, r))
    ctx.cov['planning_status'] = status
    if not ok:
        raise MachineryError('no time-series plan could be brought into the model')
    sample = 0 if thorough else 60
    if thorough:
        for p in ok:
            p['plan']['tables'][0]['maxrows'] = 3
    bad, r = planexec.run_planexec(ctx, ok, sample=sample, name='planexec_ts')
    for i, outcomes in bad.items():
        p = ok[i]
        for v in sorted({v for v, _ in outcomes}):
            asg = next(a for vv, a in outcomes if vv == v)
            ctx.violation('%s:%s:groups=%d' % (v, p['cond'], p['ng']),
                          'the rows handed to the time-series model are not an admissible input (window + selected rows)',
                          {'sql': p['sql'], 'window': p['window'], 'table': asg, 'fetches': p['fetches']},
                          pin=(p['sql'], v))
    ctx.cov['programs'] = len(ok)
    ctx.cov['disagreements_checked'] = sum(len(v) for v in bad.values())
    ctx.cov['evaluations'] = r.distinct
    for p in ok[::max(1, len(ok) // 4)]:
        ctx.sample({'sql': p['sql'], 'window': p['window'], 'fetches': p['fetches']})
    ctx.assumptions += ['tables of <= 3 rows over g in {1,2} x ts in {NULL,0,1,2,3} (two group columns: 3 keys x 4 times)',
                        'partition values are non-null; the model itself is not executed (only its input is judged)']
    return ctx.finish(exhaustive=thorough)


def replay(ctx, path):
    rec = json.load(open(path))['replay']
    print(json.dumps(rec, indent=1)[:3000])
    return 0
