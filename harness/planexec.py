"""Shared machinery for the translation-validation checks (C08, C11, C15): build PlanExec inputs from real plans,
cross-check the reference semantics against sqlite3, run PlanExec, collect verdicts."""
import random
import sqlite3

from .common import MachineryError, dump_json
from .tlaparse import find_prints
from . import sem
from .qspace import SCHEMA

NULL = -99
ROWSET = [(1, 1), (1, 2), (2, 1), (NULL, 1), (2, NULL)]
INTEGRATIONS = ['int1', 'int2', {'name': 'int3', 'type': 'data', 'class_type': 'api'}]


def _rename(o, back):
    """Replace, everywhere in a semantic JSON value, a string equal (case-insensitively) to a renamed integration by the
    canonical name of the model's schema."""
    if isinstance(o, dict):
        return {k: _rename(v, back) for k, v in o.items()}
    if isinstance(o, list):
        return [_rename(v, back) for v in o]
    if isinstance(o, str) and o.lower() in back:
        return back[o.lower()]
    return o


def plan_case(sql, integrations=None, default_namespace='mindsdb', extra=None, rename_back=None, handbuilt=False):
    """-> dict(status=..., [plan json]) for one SQL text.
    rename_back {name used in this catalog (lower case): canonical schema name}: the integration is called differently
    in this run (catalog and SQL text); semantic values are mapped back so that the schema of the model applies."""
    back = {k.lower(): v for k, v in (rename_back or {}).items()}
    from mindsdb_sql import parse_sql
    from mindsdb_sql.planner import plan_query
    from mindsdb_sql.exceptions import PlanningException
    out = {'sql': sql}
    try:
        tree = parse_sql(sql, 'mindsdb')
    except Exception as e:   # noqa
        out['status'] = 'parse-error:%s' % type(e).__name__
        return out
    try:
        orig = _rename(sem.query(tree), back)
    except sem.Unsupported as e:
        out['status'] = 'unsupported-original:%s' % e
        return out
    try:
        tree2 = parse_sql(sql, 'mindsdb')
        try:
            str(tree2)          # a caller may have printed / logged / compared the query before planning it
        except Exception:   # noqa
            pass
        if handbuilt:
            # the same tree the way a program may build it by hand: clause lists given as tuples
            from .project import walk_objects

            def tup(o, path):
                d = getattr(o, '__dict__', None)
                if d and type(o).__module__.startswith('mindsdb_sql'):
                    for k in ('group_by', 'order_by', 'partition'):
                        if isinstance(d.get(k), list) and d[k]:
                            d[k] = tuple(d[k])
            walk_objects(tree2, tup)
        plan = plan_query(tree2, integrations=list(integrations or INTEGRATIONS),
                          default_namespace=default_namespace, **(extra or {}))
    except PlanningException as e:
        out['status'] = 'planning-refused'
        out['msg'] = str(e)[:200]
        return out
    except NotImplementedError as e:
        out['status'] = 'planning-refused'
        out['msg'] = 'NotImplementedError ' + str(e)[:200]
        return out
    except Exception as e:   # noqa
        out['status'] = 'planning-internal-error:%s' % type(e).__name__
        out['msg'] = str(e)[:200]
        return out
    out['nsteps'] = len(plan.steps)
    out['kinds'] = [type(s).__name__ for s in plan.steps]
    out['fetch_sql'] = [(back.get(str(getattr(s, 'integration', '')).lower(), str(getattr(s, 'integration', ''))),
                         str(getattr(s, 'query', '')))
                        for s in plan.steps if type(s).__name__ == 'FetchDataframeStep']
    # what a handler receives may be the TEXT of the fetch query: it must say what the tree says
    out['fetch_text_mismatch'] = []
    for s_ in plan.steps:
        if type(s_).__name__ == 'FetchDataframeStep' and getattr(s_, 'query', None) is not None and not getattr(s_, 'raw_query', None):
            try:
                a_ = sem.query(s_.query)
            except sem.Unsupported:
                continue
            if ':Result(' in str(s_.query):
                continue        # carries a step result as a parameter: not a text any parser reads
            try:
                b_ = sem.query(parse_sql(str(s_.query), 'mindsdb'))
            except sem.Unsupported:
                continue
            except Exception as e:   # noqa
                b_ = 'unparsable:%s' % type(e).__name__
            if a_ != b_:
                out['fetch_text_mismatch'].append(str(s_.query))
    try:
        steps = _rename(sem.plan_steps(plan), back)
    except sem.Unsupported as e:
        out['status'] = 'unsupported-plan:%s' % e
        return out
    tabs = []
    for db, name in sem.tables_of(orig):
        if (db, name) not in SCHEMA:
            # a name that is not a base table of the catalog (CTE name, ...)
            continue
        if (db, name) not in tabs:
            tabs.append((db, name))
    for st in steps:
        for db, name in sem.tables_of(st['q']):
            d = db or st['defdb']
            if (d, name) in SCHEMA and (d, name) not in tabs:
                tabs.append((d, name))
    out['status'] = 'ok'
    out['plan'] = {'orig': orig, 'steps': steps, 'defdb': '', 'ts': {'on': 0},
                   'tables': [{'db': d, 'name': n, 'cols': SCHEMA[(d, n)], 'rowset': [list(r) for r in ROWSET],
                               'maxrows': 2} for d, n in tabs]}
    return out


def all_contents():
    cs = [[]]
    for r in ROWSET:
        cs.append([list(r)])
    for i, r in enumerate(ROWSET):
        for s in ROWSET[i:]:
            cs.append([list(r), list(s)])
    return cs


def sqlite_eval(sql, tables, asg):
    """Execute the ORIGINAL text on sqlite3 holding all the tables (one attached database per integration)."""
    con = sqlite3.connect(':memory:')
    for d in sorted({t['db'] for t in tables}):
        con.execute("attach ':memory:' as %s" % d)
    for t, rows in zip(tables, asg):
        con.execute('create table %s.%s (%s)' % (t['db'], t['name'], ', '.join('"%s"' % c_ for c_ in t['cols'])))
        for r in rows:
            con.execute('insert into %s.%s values (%s)' % (t['db'], t['name'], ','.join('?' * len(r))),
                        [None if v == NULL else v for v in r])
    cur = con.execute(sql)
    rows = [[NULL if v is None else v for v in r] for r in cur.fetchall()]
    return rows


def oracle_crosscheck(ctx, cases, per_case=3, name='oracle'):
    """SQLSem must agree with sqlite3 on the original queries (a disagreement is a spec bug -> machinery error)."""
    rng = random.Random(ctx.seed + 77)
    cont = all_contents()
    obs = []
    meta = []
    for c in cases:
        p = c['plan']
        for _ in range(per_case):
            asg = [rng.choice(cont) for _ in p['tables']]
            try:
                rows = sqlite_eval(c['sql'], p['tables'], asg)
            except sqlite3.Error as e:
                continue
            if any((not isinstance(v, int)) or abs(v) > 10 ** 6 for r in rows for v in r):
                continue
            obs.append({'orig': p['orig'], 'tables': p['tables'], 'asg': asg, 'rows': rows, 'defdb': ''})
            meta.append((c['sql'], asg, rows))
    if not obs:
        return 0
    path = ctx.work / (name + '_obs.json')
    dump_json(path, obs)
    r = ctx.tlc('SemOracle', env={'VERIF_OBS': path}, name=name, timeout=3000)
    if not r.ok:
        raise MachineryError('SemOracle failed: %s' % r.errors[:3])
    bad = list(find_prints(r.out, 'DIFF'))
    if bad:
        i = bad[0][1] - 1
        raise MachineryError('reference semantics disagrees with sqlite3 (spec bug, not a finding): %r db=%r sqlite=%r spec=%r'
                             % (meta[i][0], meta[i][1], meta[i][2], bad[0][2]))
    return len(obs)


def run_planexec(ctx, cases, sample, names=False, name='planexec'):
    """cases: list of dicts with 'plan'. Returns {index: [(verdict, asg), ...]} for the non-ok outcomes."""
    path = ctx.work / (name + '_plans.json')
    dump_json(path, [c['plan'] for c in cases])
    cfg = ctx.work / (name + '_cfg.json')
    dump_json(cfg, {'sample': sample, 'names': 1 if names else 0})
    r = ctx.tlc('PlanExec', env={'VERIF_PLANS': path, 'VERIF_CFG': cfg}, name=name, timeout=5400,
                extra=['-seed', str(ctx.seed + 1)])
    if not r.ok:
        raise MachineryError('PlanExec failed: %s' % r.errors[:3])
    out = {}
    for v in find_prints(r.out, 'BAD'):
        out.setdefault(v[1] - 1, []).append((v[2], v[3]))
    return out, r
