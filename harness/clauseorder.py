"""ClauseOrder.tla bound to the three dialect parsers (run as part of C02; growth beyond the listed properties).

design : TLC proves that the transcribed clause-order checker accepts exactly the duplicate-free clause lists in SQL
         order (Agreement, Attached) for every list up to the bound.
conform: every clause list up to the bound is written as a SELECT, parsed by the real parser of each dialect and the
         outcome (tree and which clause attributes are set / ParsingException / anything else) is judged by TLC against
         the automaton.  An internal error is a C02 violation; an acceptance mismatch is reported as model drift
         (information in the evidence), because no listed property speaks about clause order.
"""
import itertools

from .common import MachineryError, dump_json
from .corpus import pmap

TEXT = {'FROM': 'from t as t1', 'WHERE': 'where a = 1', 'GROUPBY': 'group by (a)', 'HAVING': 'having a > 1',
        'ORDERBY': 'order by a desc', 'LIMIT': 'limit 3', 'LIMIT2': 'limit 1, 3', 'OFFSET': 'offset 2', 'MODE': 'for update'}
ATTR = {'from_table': 'FROM', 'where': 'WHERE', 'group_by': 'GROUPBY', 'having': 'HAVING', 'order_by': 'ORDERBY',
        'limit': 'LIMIT', 'offset': 'OFFSET', 'mode': 'MODE'}
CLAUSES = list(TEXT)


def _parse(args):
    cs, d = args
    from mindsdb_sql import parse_sql
    from mindsdb_sql.exceptions import ParsingException
    sql = 'select 1 as x ' + ' '.join(TEXT[c] for c in cs)
    try:
        t = parse_sql(sql, d)
    except ParsingException:
        return {'cs': list(cs), 'out': 'ParsingException', 'attrs': ['<pad>']}
    except Exception as e:   # noqa
        return {'cs': list(cs), 'out': 'internal:' + type(e).__name__, 'attrs': ['<pad>']}
    if type(t).__name__ != 'Select':
        return {'cs': list(cs), 'out': 'other:' + type(t).__name__, 'attrs': ['<pad>']}
    return {'cs': list(cs), 'out': 'tree', 'attrs': ['<pad>'] + [v for k, v in ATTR.items() if getattr(t, k, None) is not None]}


def run(ctx, maxlen):
    r = ctx.tlc('ClauseOrder', workers=4, env={'VERIF_MODE': 'mc', 'VERIF_MAXLEN': str(maxlen + 1)}, name='clauseorder_mc')
    if r.violated or not r.ok:
        raise MachineryError('ClauseOrder design check failed: %s %s' % (r.violated, r.errors[:2]))
    work = []
    for d in ('mindsdb', 'mysql', 'sqlite'):
        cl = [c for c in CLAUSES if not (d == 'sqlite' and c == 'MODE')]
        for n in range(0, maxlen + 1):
            for cs in itertools.product(cl, repeat=n):
                work.append((cs, d))
    res = pmap(_parse, work, chunksize=256)
    for (cs, d), rec in zip(work, res):
        rec['dialect'] = d
    path = ctx.work / 'clauseorder.json'
    dump_json(path, res)
    tr = ctx.tlc('ClauseOrder', workers=8, env={'VERIF_MODE': 'trace', 'VERIF_TRACES': path}, name='clauseorder_trace', timeout=3000)
    if not tr.ok:
        raise MachineryError('ClauseOrder trace job failed: %s' % tr.errors[:3])
    ver = {x[0]: x[1] for x in tr.prints('ACC')}
    if len(ver) != len(res):
        raise MachineryError('ClauseOrder judged %d of %d records' % (len(ver), len(res)))
    drift = {}
    for i, ((cs, d), rec) in enumerate(zip(work, res)):
        for flag in ver[i + 1]:
            sql = 'select 1 as x ' + ' '.join(TEXT[c] for c in cs)
            if flag == 'InternalError':
                ctx.violation('internal:%s:clause-list:%s' % (rec['out'].split(':')[-1], d),
                              'a SELECT clause list ends in an internal error instead of a tree or ParsingException',
                              {'sql': sql, 'dialect': d, 'kind': 'clause-list', 'final': rec['out']})
            else:
                drift.setdefault('%s:%s' % (flag, d), []).append(sql)
    ctx.cov['clause_order'] = {'lists': len(work), 'maxlen': maxlen, 'accepted': sum(1 for r_ in res if r_['out'] == 'tree'),
                               'model_drift': {k: {'n': len(v), 'example': v[0]} for k, v in drift.items()}}
    for k, v in drift.items():
        ctx.note('ClauseOrder model drift %s: %d lists, e.g. %s' % (k, len(v), v[0]))
    return len(res)
