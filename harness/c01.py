"""C01 -- printing a parsed statement and re-parsing it yields the same tree.

cases  : the test-suite statements, TLC GrammarGen sentences and one sentence per grammar production for all three
         dialects, identifier / literal cases of Lexeme.tla and operator trees of ExprPrec.tla embedded in statements.
judge  : each accepted text is driven through parse, print, parse, print and copy(); the recorded pipeline (digests of
         the generic reflection projection) is validated by TLC against RoundTrip.tla.
The specification contributes the input space and the idempotence machine; this property is decided mostly by the
conformance half (exploration level).
"""
import json
import os
import random
import subprocess
import sys

from .common import MachineryError, dump_json, REPO, VERIF, PY
from .corpus import pmap, accepted
from .tlaparse import find_prints

DIALECTS = ('mindsdb', 'mysql', 'sqlite')
POOL_SEED = 4101
EXTRA = ["select 0.1234567, 3.141592653589793, 100000000000000000000.5, 0.000000001, 12345678.12345678 from t where a between 0.0000001 and 99.99999999",
         "select a from t order by b nulls last, c nulls first, d asc nulls last, e desc nulls first",
         "select sum(a) over (partition by b order by c nulls first, d desc) from t", "select -0.5, - 0.25, -(1.5), 1.0, 1.10, 10.010 from t",
         "select a from t limit 0", "select a from t limit 0 offset 0", "select a from t where b in (1.5, 2.25, -3.125)",
         "insert into t (a, b) values (1.23456789012, -0.000001)", "update t set a = 0.30000000000000004 where b = 1e0",
         "select `primary_key` from t", "select @`a b`", "select '\\\\'", "select ?", "select a from t where b = ?",
         "select \"a.b\" from t", "select `a b`.`c` from `d e`", "select (a + b) * c, a + (b * c), (a), ((a)) from t",
         "select - (a), -(-a), not (not a) from t", "select a from t where (a = 1 or b = 2) and c = 3",
         "select * from (select * from t) as s", "select 'it''s', \"x\", 'a\\'b' from t", "select `order`, `select` from `from`",
         "insert into t (`a b`, c) values ('x', 1.50)", "create table t (`a b` int, c text)", "select 1.0, 1.50, 007, 1e5 from t",
         "select a from t order by a desc nulls last limit 2 offset 1", "select case when a then 'b' end as `c d` from t"]


def _rt(args):
    sql, d = args
    from mindsdb_sql import parse_sql
    from .project import digest, jdump, proj
    ev = []
    try:
        t1 = parse_sql(sql, d)
    except Exception:   # noqa
        return None
    if t1 is None:
        return None
    d1 = digest(t1)
    ev.append({'e': 'parse1', 'd': d1, 'ok': 1, 't': ''})
    try:
        s1 = t1.to_string()
        ev.append({'e': 'print1', 'd': s1, 'ok': 1, 't': ''})
    except Exception as e:   # noqa
        ev.append({'e': 'print1', 'd': 'EXC:' + type(e).__name__, 'ok': 0, 't': ''})
        return {'sql': sql, 'dialect': d, 'events': ev, 'kind': type(t1).__name__, 'text1': None}
    try:
        c = t1.copy()
        ev.append({'e': 'copy', 'd': digest(c), 'ok': 1, 't': c.to_string()})
    except Exception as e:   # noqa
        ev.append({'e': 'copy', 'd': 'EXC:' + type(e).__name__, 'ok': 0, 't': ''})
    try:
        t2 = parse_sql(s1, d)
        ev.append({'e': 'parse2', 'd': digest(t2), 'ok': 1, 't': ''})
    except Exception as e:   # noqa
        ev.append({'e': 'parse2', 'd': 'EXC:' + type(e).__name__, 'ok': 0, 't': ''})
        return {'sql': sql, 'dialect': d, 'events': ev, 'kind': type(t1).__name__, 'text1': s1, 'site': reject_site(s1, d)}
    try:
        s2 = t2.to_string()
        ev.append({'e': 'print2', 'd': s2, 'ok': 1, 't': ''})
    except Exception as e:   # noqa
        ev.append({'e': 'print2', 'd': 'EXC:' + type(e).__name__, 'ok': 0, 't': ''})
    diff = None
    if digest(t2) != d1:
        diff = first_diff(proj(t1), proj(t2))
    return {'sql': sql, 'dialect': d, 'events': ev, 'kind': type(t1).__name__, 'text1': s1, 'diff': diff}


RAW_PRE = [('CREATE MODEL m FROM db (', ') PREDICT y'), ('RETRAIN m FROM db (', ')'), ('FINETUNE m FROM db (', ')'),
           ('CREATE VIEW v AS (', ')'), ('CREATE VIEW v FROM db (', ')'), ('CREATE JOB j (', ')'),
           ('CREATE JOB j ( select 1 ) IF (', ')'), ('CREATE TRIGGER t ON db.tbl (', ')'), ('SELECT * FROM db (', ') LIMIT 3'),
           ('EVALUATE acc FROM (', ')')]
RAW_INNER = ['select a, b from c where x = 1', 'select a,\n   b from c\n where x = 1', 'select a, b\n\n   from c\n\n\n  where x = 1',
             '\n  select a\n  from c\n', 'select a from c;\n\n   select b from d']
RAW = [a + i + b for a, b in RAW_PRE for i in RAW_INNER]
GAPS = [' ', '\n', '\n\n    ', '  ', '\t', '\n \n']


def layouts(sql, dialect):
    """The same token sequence written with other white space between the tokens (deterministic variants)."""
    from .corpus import lex_spans
    sp = lex_spans(dialect, sql)
    if not sp or len(sp) < 2 or len(sp) > 80:
        return []
    lx = [sql[a:b] for _, a, b in sp]
    out = []
    for k in (0, 1):
        t = lx[0]
        for i, x in enumerate(lx[1:]):
            t += (GAPS[2] if k == 0 else GAPS[(i * 7 + 3) % len(GAPS)]) + x
        out.append(t)
    return out


HISTORY_STMTS = ["select `job`.`project` from `trigger`", "select `latest`, `skill`, `every` from `chatbot`",
                 "select `evaluate`, `finetune` from `predict` where `horizon` = 1", "select `primary_key`, `ml_engine` from t",
                 "select a as `intersect`, b as `except` from `using`", "select `order`, `group`, `by`, `if` from `exists`",
                 "select `model`, `agent`, `view` from `database`", "select `x y`.`z` from `a-b`"]
ORDERS = (('sqlite', 'mysql', 'mindsdb'), ('mysql', 'sqlite', 'mindsdb'), ('mysql', 'mindsdb', 'sqlite'))


def worker_main():
    """Fresh interpreter: run the pipelines in the order given (the call history is part of the input)."""
    items = json.loads(sys.stdin.read())
    sys.stdout.write(json.dumps([_rt((s, d)) for s, d in items]))


def fresh_history(items):
    e = dict(os.environ)
    e.update({'PYTHONPATH': '%s:%s' % (REPO, VERIF), 'PYTHONHASHSEED': '0', 'MINDSDB_SQL_VERIF': '1', 'PYTHONDONTWRITEBYTECODE': '1'})
    p = subprocess.run([PY, '-c', 'from harness.c01 import worker_main; worker_main()'], input=json.dumps(items), env=e,
                       cwd=str(VERIF), stdout=subprocess.PIPE, stderr=subprocess.PIPE, text=True, timeout=1800)
    if p.returncode != 0:
        raise MachineryError('history worker failed: %s' % p.stderr[-800:])
    return json.loads(p.stdout)


def _tn(x):
    if isinstance(x, dict):
        return x.get('k', 'dict')
    if isinstance(x, list):
        return 'list'
    return type(x).__name__


def jk(x):
    return json.dumps(x, sort_keys=True, default=str)


def first_diff(a, b, cls='', path=''):
    """Call-site coordinate of the first structural difference: the nearest enclosing node class, the attribute path
    below it and what happened to the value there (type transition, or 'value' when only the value changed)."""
    def here(what):
        return '%s.%s:%s' % (cls, path, what) if path else '%s:%s' % (cls, what)
    if _tn(a) != _tn(b):
        return here('%s->%s' % (_tn(a), _tn(b)))
    if isinstance(a, dict):
        k = a.get('k', '')
        if k == '<dict>':
            ka, kb = [jk(x[0]) for x in a['items']], [jk(x[0]) for x in b['items']]
            if ka != kb:
                return here('dict-keys')
            for (k1, v1), (_, v2) in zip(a['items'], b['items']):
                r = first_diff(v1, v2, cls, path + '[]')
                if r:
                    return r
            return None
        if k.startswith('<'):
            return None if a == b else here('value')
        for name in a:
            if name == 'k':
                continue
            if name not in b:
                return '%s.%s:missing' % (k, name)
            r = first_diff(a[name], b[name], k, name)
            if r:
                return r
        for name in b:
            if name not in a:
                return '%s.%s:extra' % (k, name)
        return None
    if isinstance(a, list):
        if len(a) != len(b):
            return here('len')
        for x, y in zip(a, b):
            r = first_diff(x, y, cls, path)
            if r:
                return r
        return None
    return None if a == b else here('value')


def reject_site(text, dialect):
    """Where the printed text is rejected: 'lexer', or the token type at which the parser reports the error together
    with the type of the token shifted before it (read from the guarded driver hook)."""
    import sly.yacc as yacc
    from mindsdb_sql import parse_sql
    seen = {'prev': '^', 'err': None}

    def sink(parser, name, *a):
        if seen['err'] is not None:
            return
        if name == 'shift':
            seen['prev'] = a[1].type
        elif name == 'error_cb_begin':
            seen['err'] = a[1].type if a[1] is not None else '$end'
    prev = yacc._verif_sink
    yacc._verif_sink = sink
    try:
        parse_sql(text, dialect)
    except Exception:   # noqa
        pass
    finally:
        yacc._verif_sink = prev
    if seen['err'] is None:
        return 'lexer'
    return 'after-%s-at-%s' % (seen['prev'], seen['err'])


def run(ctx):
    thorough = ctx.tier == 'thorough'
    rng = random.Random(ctx.seed + 1)
    from . import grammargen
    work = []
    for d in DIALECTS:
        for s in EXTRA + HISTORY_STMTS + RAW:
            work.append((s, d, 'targeted'))
            for v in layouts(s, d):
                work.append((v, d, 'layout'))
        acc = accepted(d)
        for s in acc:
            work.append((s, d, 'tests'))
        for s in (acc if thorough else acc[::5]):
            for v in layouts(s, d):
                work.append((v, d, 'layout'))
        # generated sentences: the token-type sentences come from a FIXED pool (constant TLC seed) so that the listed
        # failures can be pinned input by input; VERIF_SEED varies the identifier spellings they are concretized with
        for s, ty, _ in grammargen.cover_texts(ctx, d, variants=2 if thorough else 1):
            work.append((s, d, 'production-cover', ' '.join(ty)))
        # ... and once more with edge spellings of the value-carrying tokens (0, empty strings, quoted names); fixed spellings,
        # keyed by the text itself
        seen_plain = {w_[0] for w_ in work}
        for s, ty, _ in grammargen.cover_texts(ctx, d, variants=3, edge=True, seed=POOL_SEED):
            if s not in seen_plain:
                work.append((s, d, 'production-cover-edge', s))
        # ... and every value-carrying token position of the cover sentences with EVERY edge spelling of its kind, one position
        # at a time (positions spelled "x" or ? -- a name in the shortest sentence -- also take the quoted-name spellings)
        from .corpus import lex_spans
        for s, ty, _ in grammargen.cover_texts(ctx, d, variants=1, seed=POOL_SEED):
            sp = lex_spans(d, s)
            if not sp or len(sp) > 40:
                continue
            for j_, (t_, a_, b_) in enumerate(sp):
                alts = list(grammargen.EDGE.get(t_, []))
                if t_ in ('DQUOTE_STRING', 'PARAMETER') or (j_ > 0 and t_ == 'CREATE'):
                    # (the shortest sentence of the `id` non-terminal is the keyword CREATE: a CREATE that does not open the
                    # statement stands for a name)
                    alts += grammargen.EDGE['ID']
                for v_ in alts:
                    txt = s[:a_] + v_ + s[b_:]
                    if txt not in seen_plain:
                        work.append((txt, d, 'edge-substitution', txt))
        # ... constants of ANOTHER kind: the cover sentences spell every constant the shortest way (a double-quoted string), so
        # clauses that insist on a number are never accepted there.  Every `constant` of the derivation spelled as an integer
        # (and as a string, a float), then, on the all-integer spelling, one at a time as each other kind of constant
        for txt, ty, _ in grammargen.const_kind_texts(d, grammargen.cover_sentences(d, override={'constant': [grammargen.CONST]}), POOL_SEED):
            if txt not in seen_plain:
                work.append((txt, d, 'constant-kind', txt))
        # ... and two clauses / options / list items of one statement together, in both orders (derivation trees of depth 2, chains of
        # three clauses for statements; thorough: depth 3 everywhere) at every self-recursive nonterminal of the grammar)
        for txt, ty, _ in grammargen.pair_cover_texts(ctx, d, depth=3 if thorough else 2.5, seed=POOL_SEED):
            if txt not in seen_plain:
                work.append((txt, d, 'pair-cover', txt))
        gen = grammargen.texts(ctx, d, (300 if thorough else 14) if d == 'mindsdb' else (100 if thorough else 5), seed=POOL_SEED)
        for s, ty, _ in gen:
            work.append((s, d, 'grammar-sentence', ' '.join(ty)))
    seen = set()
    w2 = []
    for w in work:
        s, d, k = w[:3]
        key = w[3] if len(w) > 3 else s
        if (key, d) not in seen:
            seen.add((key, d))
            w2.append((s, d, k, key))
    res = pmap(_rt, [(w[0], w[1]) for w in w2], chunksize=32)
    traces, meta = [], []
    for (s, d, k, key), r in zip(w2, res):
        if r is None:
            continue
        r['key'] = key
        traces.append({'events': r['events']})
        meta.append((r, k))
    # ---- call histories: the same pipelines in fresh interpreters that use the dialects in another order (what a
    # statement prints to must not depend on which dialect was used first in the process)
    base = {(r['dialect'], r['key']): r for r, _ in meta}
    hist_items = [(w[0], w[1], w[3]) for w in w2 if w[2] in ('targeted', 'tests')]
    if not thorough:
        fixed = [w for w in hist_items if w[0] in EXTRA + HISTORY_STMTS]
        rest = [w for w in hist_items if w[0] not in EXTRA + HISTORY_STMTS]
        rng.shuffle(rest)
        hist_items = fixed + rest[:300]
    from concurrent.futures import ThreadPoolExecutor
    jobs = []
    for order in ORDERS:
        items = [w for d in order for w in hist_items if w[1] == d]
        jobs.append((order, items))
    with ThreadPoolExecutor(len(jobs)) as ex:
        outs = list(ex.map(lambda j: fresh_history([(w[0], w[1]) for w in j[1]]), jobs))
    nh = 0
    for (order, items), out in zip(jobs, outs):
        for w, r in zip(items, out):
            b = base.get((w[1], w[2]))
            if r is None or b is None:
                if (r is None) != (b is None):
                    ctx.violation('AcceptanceDependsOnHistory', 'a text is accepted in one call history and rejected in another',
                                  {'sql': w[0], 'dialect': w[1], 'order': list(order)})
                continue
            r['key'] = w[2]
            r['order'] = list(order)
            # the baseline print is part of the record: RoundTrip flags a print that differs between histories
            r['events'].append({'e': 'hist', 'd': b.get('text1') or '', 'ok': 1, 't': ''})
            traces.append({'events': r['events']})
            meta.append((r, 'history:' + '>'.join(order)))
            nh += 1
    ctx.cov['history_pipelines'] = nh
    path = ctx.work / 'rt.json'
    dump_json(path, traces)
    tr = ctx.tlc('RoundTrip', env={'VERIF_TRACES': path}, name='roundtrip', timeout=3000)
    if not tr.ok:
        raise MachineryError('RoundTrip failed: %s' % tr.errors[:3])
    ver = {x[0]: x[1] for x in tr.prints('ACC')}
    if len(ver) != len(traces):
        raise MachineryError('RoundTrip judged %d of %d pipelines (a pipeline that is no behaviour of the machine)' % (len(ver), len(traces)))
    kinds = {}
    for i, (r, k) in enumerate(meta):
        kinds[r['kind']] = kinds.get(r['kind'], 0) + 1
        for flag in ver[i + 1]:
            # signature = failure kind + the class whose printer is at fault (nearest class of the first difference,
            # else the statement class); the fine coordinate is what is pinned per input
            if flag == 'ReparsedTreeDiffers':
                fine = r.get('diff') or '?'
                culprit = fine.split(':')[0].split('.')[0]
            elif flag == 'PrintedTextRejected':
                fine = r.get('site')
                culprit = r['kind']
            elif flag == 'SecondPrintDiffers' and 'ReparsedTreeDiffers' in ver[i + 1]:
                continue    # consequence of the tree difference already reported
            elif flag == 'PrintDependsOnHistory':
                ctx.violation('PrintDependsOnHistory:%s' % r['kind'], 'the same text prints differently depending on which dialects '
                              'were used earlier in the process', {'sql': r['sql'], 'dialect': r['dialect'], 'order': r.get('order'),
                                                                  'printed': r.get('text1')})
                continue
            else:
                fine = ''
                culprit = r['kind']
            fc = ctx.cov.setdefault('failure_classes', {})
            fc['%s:%s %s' % (flag, culprit, fine)] = fc.get('%s:%s %s' % (flag, culprit, fine), 0) + 1
            ctx.violation('%s:%s' % (flag, culprit), 'round trip: %s %s' % (flag, fine),
                          {'sql': r['sql'], 'dialect': r['dialect'], 'printed': r.get('text1'), 'source': k, 'where': fine,
                           'order': r.get('order'),
                           'events': [(e['e'], e['ok']) for e in r['events']]},
                          pin=('%s|%s' % (r['dialect'], r['key']), [flag, fine]))
    ctx.cov['evaluations'] = len(traces)
    ctx.cov['traces_validated_against_impl'] = len(traces)
    ctx.cov['distinct_nontrivial'] = len({(r['dialect'], r['text1']) for r, _ in meta if r.get('text1')})
    ctx.cov['rule'] = ('accepted texts from 4 corpora x 3 dialects; distinct = distinct (dialect, printed text) pairs; '
                       'non-trivial = accepted by the parser (rejected texts are dropped before counting)')
    ctx.cov['statement_kinds'] = kinds
    for r, k in meta[::max(1, len(meta) // 6)]:
        ctx.sample({'sql': r['sql'][:200], 'dialect': r['dialect'], 'printed': (r.get('text1') or '')[:200], 'source': k})
    ctx.assumptions += ['tree identity = equality of the generic reflection projection (public attributes)',
                        'statements the parser rejects are outside the property']
    return ctx.finish(exhaustive=False)


def replay(ctx, path):
    rec = json.load(open(path))['replay']
    print(json.dumps(_rt((rec['sql'], rec['dialect'])), indent=1)[:3000])
    return 0
