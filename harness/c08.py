"""C08 -- executing a federated plan returns what the original query returns.

spec   : SQLSem.tla (reference semantics, cross-checked against sqlite3 on the very queries used),
         PlanExec.tla (documented meaning of plan steps; all admissible outcomes of every step).
cases  : QuerySpace.tla (Family = "federated") -> SQL text -> the real plan_query -> plan in semantic form.
judge  : PlanExec runs every plan on every / a seeded sample of all small databases; the result of the last step
         must be an admissible answer of the original query on the merged database.
"""
import json
import random

from .common import MachineryError
from .corpus import pmap
from .tlaparse import find_prints
from . import planexec, qspace


def _plan(sql):
    return planexec.plan_case(sql)


def classify(q):
    """(shape, kind) of an original query in semantic form -- the input-side coordinate of a finding."""
    if q.get('q') == 'setop':
        return 'setop', q['op'] + (' all' if q.get('all') else '')
    f = q.get('from', {})
    if q.get('ctes'):
        return 'cte', f.get('kind', '-')
    if f.get('f') == 'join':
        l = f['l']
        if l.get('f') == 'join':
            return 'join3', l.get('kind', '-')
        if l.get('f') == 'sub' or f['r'].get('f') == 'sub':
            return 'nested', f.get('kind', '-')
        return 'join2', f.get('kind', '-')
    txt = json.dumps(q.get('where', {}))
    if '"insub"' in txt:
        return 'insub', 'not in' if '"neg": true' in txt else 'in'
    if '"scalar"' in txt:
        return 'scalar', '-'
    return 'other', '-'


def run(ctx):
    thorough = ctx.tier == 'thorough'
    rng = random.Random(ctx.seed + 8)
    g = ctx.tlc('QuerySpace', cfg='QuerySpace_fed.cfg', name='queryspace')
    recs = [v[1] for v in find_prints(g.out, 'Q')]
    if len(recs) != g.distinct:
        raise MachineryError('QuerySpace: parsed %d of %d' % (len(recs), g.distinct))
    recs.sort(key=lambda c: json.dumps(c, sort_keys=True))
    if not thorough:
        # every shape other than the big join2 product in full, join2 sampled
        def bare(c):
            # at most one optional clause present
            return (c['where'] != 'none') + (c['order'] != 'none') + (tuple(c['lim']) != ('none', 'none')) <= 1
        small = [c for c in recs if c['shape'] != 'join2' or bare(c)]
        big = [c for c in recs if c['shape'] == 'join2' and not bare(c)]
        rng.shuffle(big)
        recs = small + big[:500]
    sqls = []
    seen = set()
    for c in recs:
        s = qspace.render(c)
        if s not in seen:
            seen.add(s)
            sqls.append((s, c))
    for f in ctx.findings:
        rp = f.get('replay') or {}
        if rp.get('sql') and rp['sql'] not in seen:
            seen.add(rp['sql'])
            sqls.insert(0, (rp['sql'], {'shape': 'known-finding-replay'}))
    planned = pmap(_plan, [s for s, _ in sqls], chunksize=32)
    status = {}
    cases = []
    for (s, c), p in zip(sqls, planned):
        st = p['status'].split(':')[0]
        status[st] = status.get(st, 0) + 1
        if p.get('fetch_text_mismatch'):
            ctx.violation('fetch-text-is-not-its-tree:%s' % c.get('shape'), 'the text of a fetch query does not say what its tree says',
                          {'sql': s, 'fetch_text': p['fetch_text_mismatch']}, pin=(s, 'text'))
        if p['status'] == 'ok':
            p['rec'] = c
            cases.append(p)
        elif st == 'planning-internal-error':
            ctx.cov.setdefault('planning_internal_errors', []).append(p['sql'][:120])
    ctx.cov['planning_status'] = status
    if not cases:
        raise MachineryError('no plan could be brought into the modelled fragment')
    ctx.cov['oracle_crosschecked_against_sqlite3'] = planexec.oracle_crosscheck(ctx, cases, per_case=2 if not thorough else 4)
    bad, r = planexec.run_planexec(ctx, cases, sample=0 if thorough else 24)
    undec = 0
    for i, outcomes in bad.items():
        c = cases[i]
        kinds = sorted({v for v, _ in outcomes})
        for v in kinds:
            if v.startswith('undecided'):
                undec += 1
                continue
            asg = next(a for vv, a in outcomes if vv == v)
            shape, kind = classify(c['plan']['orig'])
            if (c.get('rec') or {}).get('shape') == 'api':
                shape, kind = 'api', c['rec']['tgt'] + ('+limit' if c['rec']['lim'][0] != 'none' else '')
            ctx.violation('%s:%s:%s' % (v, shape, kind),
                          'carrying out the plan does not return what the original query returns on some database',
                          {'sql': c['sql'], 'tables': c['plan']['tables'], 'database': asg, 'plan_steps': c['kinds'],
                           'fetches': c['fetch_sql']}, pin=(c['sql'], v))
    ctx.cov['programs'] = len(cases)
    ctx.cov['disagreements_checked'] = sum(len(v) for v in bad.values())
    ctx.cov['undecided_plan_outcomes'] = undec
    ctx.cov['evaluations'] = r.distinct
    ctx.cov['databases_per_plan'] = 'all (21 per table)' if thorough else 24
    for c in cases[::max(1, len(cases) // 5)]:
        ctx.sample({'sql': c['sql'], 'plan_steps': c['kinds'], 'fetches': c['fetch_sql']})
    ctx.assumptions += ['step meanings as in DESIGN.md A.4 (dataframe columns tagged with the table alias)',
                        'databases: every bag of <= 2 rows per table over 5 row values incl. NULLs and duplicates',
                        'values are small integers; queries outside the semantic fragment are counted, not judged']
    return ctx.finish(exhaustive=thorough)


def replay(ctx, path):
    rec = json.load(open(path))['replay']
    p = planexec.plan_case(rec['sql'])
    print(json.dumps({k: v for k, v in p.items() if k != 'plan'}, indent=1))
    return 0
