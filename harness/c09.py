"""C09 -- every emitted plan is a well-formed, forward-only dataflow program.

design  : PlanBuilder.tla -- transcription of the join-sequence / partition algorithm of plan_join.py at the level of
          step skeletons; TLC checks Numbered / ForwardOnly / LastIsAnswer over all join sequences of <= 4 items and
          exhibits the known counterexample (a fetch slipping into the plan while a partition is open).
conform : every real plan (the planner tests' own queries and catalogs, generated join sequences of tables / models /
          sub-selects with partition_size variants, DML, set operations; several catalog shapes) is projected by
          reflection and judged by TLC (PlanTrace); planning must end in a plan, PlanningException or
          NotImplementedError.
"""
import copy
import json

from .common import MachineryError, dump_json
from .corpus import pmap
from . import plancorpus


def refpair(r):
    if r is None:
        return [-1, -1]
    if isinstance(r, int):
        return [r, -1]
    s = str(r)
    if s.isdigit():
        return [int(s), -1]
    if '_' in s:
        a, b = s.split('_', 1)
        if a.isdigit() and b.isdigit():
            return [int(a), int(b)]
    return [-1, -1]


def skeleton(pp):
    def st(s):
        return {'num': refpair(s['num']), 'kind': s['kind'], 'refs': [refpair(r) for r in s['refs']],
                'sub': [st(x) for x in s['sub']]}
    return {'steps': [st(s) for s in pp['steps']]}


def _plan(args):
    sql, kwargs, query = args
    from mindsdb_sql import parse_sql
    from mindsdb_sql.planner import plan_query
    from mindsdb_sql.exceptions import PlanningException
    from .project import plan_proj
    try:
        q = copy.deepcopy(query) if query is not None else parse_sql(sql, 'mindsdb')
    except Exception as e:   # noqa
        return {'status': 'parse-error'}
    try:
        plan = plan_query(q, **copy.deepcopy(kwargs))
    except PlanningException as e:
        return {'status': 'PlanningException', 'msg': str(e)[:120]}
    except NotImplementedError as e:
        return {'status': 'NotImplementedError', 'msg': str(e)[:120]}
    except Exception as e:   # noqa
        import traceback
        tb = traceback.extract_tb(e.__traceback__)
        return {'status': 'internal:' + type(e).__name__, 'msg': str(e)[:160]}
    try:
        return {'status': 'plan', 'skel': skeleton(plan_proj(plan)), 'kinds': [type(s).__name__ for s in plan.steps]}
    except Exception as e:   # noqa
        return {'status': 'projection-error:%s' % type(e).__name__}


def build_cases(thorough):
    cases = []
    for h in plancorpus.harvest():
        cases.append((h['sql'], h['kwargs'], h.get('query'), 'tests'))
    gen = plancorpus.generated()
    cats = list(plancorpus.CATALOGS)
    for i, sql in enumerate(gen):
        # statements with a time-series model meet every catalog form (settings are normalised per form); others rotate
        use = cats if (thorough or 'mindsdb.tp' in sql or 'partition_size' in sql) else [cats[i % len(cats)], cats[(i + 2) % len(cats)]]
        for c in use:
            cases.append((sql, plancorpus.catalog(c, with_ts=True), None, c))
    return cases


def statement_kind(sql):
    return sql.strip().split()[0].lower() if sql.strip() else '?'


def _hist(args):
    """Plans of one call history (see planhist): every plan is judged like a stand-alone plan."""
    sqls, cat, mode = args
    from . import planhist
    from .project import plan_proj
    out = []
    for sql, st, plan in planhist.run_history(sqls, plancorpus.catalog(cat, with_ts=True), mode):
        r = {'status': st, 'sql': sql}
        if plan is not None:
            try:
                pp = plan_proj(plan)
                r['skel'] = skeleton(pp)
                r['kinds'] = [x['kind'] for x in pp['steps']]
            except Exception as e:   # noqa
                r['status'] = 'projection-error:%s' % e
        out.append(r)
    return out


def run(ctx):
    thorough = ctx.tier == 'thorough'
    from . import c09_builder
    ctx.cov['design'] = c09_builder.design(ctx)
    cases = build_cases(thorough)
    for f in ctx.findings:
        rp = f.get('replay') or {}
        if rp.get('sql'):
            cases.insert(0, (rp['sql'], plancorpus.catalog(rp.get('catalog', 'names'), with_ts=True), None,
                             rp.get('catalog', 'names')))
    res = pmap(_plan, [(s, k, q) for s, k, q, _ in cases], chunksize=32)
    status = {}
    traces, meta = [], []
    for (sql, kw, q, cat), r in zip(cases, res):
        st = r['status']
        status[st.split(':')[0] if not st.startswith('internal') else st] = status.get(st.split(':')[0] if not st.startswith('internal') else st, 0) + 1
        key = '%s|%s' % (cat, sql)
        if st.startswith('internal:'):
            ctx.violation('planning-internal-error:%s:%s' % (st[9:], statement_kind(sql)),
                          'planning fails with an internal error instead of PlanningException: %s' % r.get('msg'),
                          {'sql': sql, 'catalog': cat, 'kwargs': repr(kw)[:400]}, pin=(key, st))
        elif st == 'plan':
            traces.append(r['skel'])
            meta.append((sql, cat, r['kinds'], key))
        elif st.startswith('projection-error'):
            raise MachineryError('cannot project plan of %r: %s' % (sql, st))
    # call histories: one planner object used for several queries / fresh planners sharing the catalog objects
    import random
    from . import planhist
    rng = random.Random(ctx.seed + 9)
    pool = [s for s, k, q, c in cases if q is None and c == 'names']
    hs = planhist.histories(rng, 200 if thorough else 40, pool)
    hwork = [(h, c, m) for h in hs for c in (('names', 'dicts') if thorough else ('names',)) for m in ('planner', 'catalog')]
    nh = 0
    for (h, c, m), out in zip(hwork, pmap(_hist, hwork, chunksize=4)):
        for pos, r in enumerate(out):
            st = r['status']
            key = 'history:%s:%s|%s' % (m, c, ' ;; '.join(h[:pos + 1]))
            if st.startswith('internal:'):
                ctx.violation('planning-internal-error:%s:history' % st[9:], 'planning fails with an internal error in a call '
                              'history (%s)' % m, {'history': h[:pos + 1], 'mode': m, 'catalog': c}, pin=(key, st))
            elif st == 'plan':
                traces.append(r['skel'])
                meta.append((r['sql'], c, r['kinds'], key, {'history': h[:pos + 1], 'mode': m}))
                nh += 1
            elif st.startswith('projection-error'):
                raise MachineryError('cannot project plan of %r: %s' % (r['sql'], st))
    ctx.cov['history_plans'] = nh
    path = ctx.work / 'plantraces.json'
    dump_json(path, traces)
    tr = ctx.tlc('PlanTrace', env={'VERIF_TRACES': path}, name='plantrace', timeout=3000)
    if not tr.ok:
        raise MachineryError('PlanTrace failed: %s' % tr.errors[:3])
    ver = {x[0]: x[1] for x in tr.prints('ACC')}
    if len(ver) != len(traces):
        raise MachineryError('PlanTrace judged %d of %d' % (len(ver), len(traces)))
    for i, m_ in enumerate(meta):
        sql, cat, kinds, key = m_[:4]
        hist = m_[4] if len(m_) > 4 else None
        for flag in ver[i + 1]:
            has_mr = 'MapReduceStep' in kinds
            where = 'history' if hist else ('with-partition' if has_mr else statement_kind(sql))
            ctx.violation('%s:%s' % (flag, where),
                          'the plan violates %s' % flag + (' (planned after other queries, %s reused)' % hist['mode'] if hist else ''),
                          {'sql': sql, 'catalog': cat, 'steps': traces[i]['steps'], 'history': hist}, pin=(key, flag))
    ctx.cov['traces_validated_against_impl'] = len(traces)
    ctx.cov['evaluations'] = len(cases)
    ctx.cov['planning_outcomes'] = status
    ctx.sample({'sql': meta[0][0], 'catalog': meta[0][1], 'skeleton': traces[0]['steps']})
    ctx.sample({'sql': meta[-1][0], 'catalog': meta[-1][1], 'skeleton': traces[-1]['steps']})
    ctx.assumptions += ['"produces the answer" is read structurally: every earlier result is consumed by a later step '
                        '(steps with side effects excepted)',
                        'sub-steps of containers may be un-numbered']
    return ctx.finish(exhaustive=False)


def replay(ctx, path):
    rec = json.load(open(path))['replay']
    r = _plan((rec['sql'], plancorpus.catalog(rec.get('catalog', 'names'), with_ts=True), None))
    print(json.dumps(r, indent=1)[:3000])
    return 0
