"""C19 -- syntax errors point at the offending token and suggestions really help (mindsdb dialect).

design half : ErrorMsgMC -- the transcription of error_location satisfies the caret contract CaretOK
              on every layout of <= N tokens (newlines, blanks, shortened string values).
conformance : rejected inputs (token mutants of accepted statements) in generated layouts (leading
              blanks, 1-3 lines, line/block comments). For each: the driver trace is validated by SlyTrace
              (which also decides, from the real tables, whether each suggested token can be shifted at
              the error configuration); the message is judged by ErrorMsgTrace (CaretOK + equality with
              the transcription).
"""
import json
import random
import re

from . import slycheck
from .common import MachineryError, dump_json
from .corpus import accepted, mutations, lex_spans, pmap

D = 'mindsdb'
SEPS = [' ', ' ', ' ', '  ', '\n', '\n  ', '\n\n', ' /* c */ ', ' -- c\n', '\t', ' /* a\n b */ ']
LEADS = ['', '', ' ', '   ', '\n', '\n  ', '-- lead\n', '/* x */ ']


def relayout(text, rng, fancy):
    spans = lex_spans(D, text)
    if not spans:
        return text
    toks = [text[a:b] for _, a, b in spans]
    if not fancy:
        return ' '.join(toks)
    out = rng.choice(LEADS)
    for i, t in enumerate(toks):
        if i:
            out += rng.choice(SEPS)
        out += t
    return out


def parse_message(msg):
    lines = msg.split('\n')
    if not lines:
        return None
    head = lines[0]
    if head.startswith('Illegal character'):
        kind = 'lex'
    elif head.startswith('Syntax error, unknown input'):
        kind = 'syntax'
    elif head.startswith('Syntax error, unexpected end of query'):
        kind = 'eof'
    else:
        return None
    caret_i = None
    for i in range(1, len(lines)):
        if re.fullmatch(r'-+\^+', lines[i]):
            caret_i = i
    if caret_i is None:
        return {'kind': kind, 'malformed': 'no caret line'}
    src = lines[1:caret_i]
    if not src or not all(l.startswith('>') for l in src):
        return {'kind': kind, 'malformed': 'source lines not marked with ">"'}
    caret = lines[caret_i]
    sugg = []
    for l in lines[caret_i + 1:]:
        m = re.match(r'(Possible inputs|Expected symbol): (.*)$', l)
        if m:
            sugg = re.findall(r'"((?:[^"]|"(?=[^,]))*)"(?:, |$)', m.group(2))
    return {'kind': kind, 'lines': [l[1:] for l in src], 'dashes': caret.count('-'), 'carets': caret.count('^'),
            'sugg': sugg}


def codes(s):
    return [ord(c) for c in s]


def _one(args):
    sql, kind = args
    from .ptrace import trace_parse_sql, final_outcome
    from .slyexport import dialect_classes
    r = trace_parse_sql(sql, D, keep_tokens=True)
    exc = r['exc']
    fin = final_outcome(r['result'], exc)
    out = {'sql': sql, 'kind': kind, 'final': fin, 'trace': r['trace'], 'msg': str(exc) if exc is not None else ''}
    if fin not in ('ParsingException', 'LexError'):
        return out
    pm = parse_message(out['msg'])
    out['pm'] = pm
    toks = r['toks']
    # the token AS WRITTEN: the source characters the lexer matched (sly records start and end), not the token value,
    # which lexer actions may have rewritten
    src_text = r['stripped']

    def lexeme(t):
        e_ = getattr(t, 'end', None)
        if isinstance(e_, int) and e_ > t.index:
            return src_text[t.index:e_]
        return str(t.value)
    out['toks'] = [{'ln': t.lineno, 'idx': t.index, 'val': codes(str(t.value)), 'lex': codes(lexeme(t)), 'ty': t.type} for t in toks]
    # the offending token according to the (TLC-validated) driver trace
    bad = None
    for e in r['trace']['events']:
        if e['e'] == 'pull':
            last_pull = e['i']
        if e['e'] == 'error_cb_begin':
            bad = 0 if e['ty'] == '$end' else last_pull
            break
    out['bad'] = bad
    if r['lexerr'] is not None:
        txt = getattr(r['lexerr'], 'text', '') or ''
        out['lexch'] = ord(txt[0]) if txt else 0
    # suggested display strings -> token types, by lexing them with the dialect's own lexer
    if pm and pm.get('sugg'):
        lx = dialect_classes(D)[0]()
        types, disp = [], []
        for s in pm['sugg']:
            if s in ('[identifier]', '[number]', '[string]'):
                continue
            try:
                tt = [t.type for t in lx.tokenize(s)]
            except Exception:   # noqa
                tt = ['<unlexable>']
            types.append(tt or ['<empty>'])
            disp.append(s)
        out['trace']['sugg'] = types
        out['sugg_disp'] = pm['sugg']
        out['sugg_judged'] = disp
    return out


def build_cases(ctx, n_stmts, muts):
    rng = random.Random(ctx.seed + 19)
    acc = accepted(D)
    pick = list(acc)
    rng.shuffle(pick)
    cases = []
    for s in pick[:n_stmts]:
        for kind, m in mutations(D, s, rng, limit=muts):
            if kind in ('concat', 'concat2', 'prefix;', 'suffix;'):
                continue
            fancy = rng.random() < 0.7
            cases.append((relayout(m, rng, fancy), kind + ('+layout' if fancy else '')))
        cases.append((relayout(s, rng, True) + rng.choice([' ☃', ' \\', ' #', '\n ~~ §']), 'illegal-char'))
    # two-word operators / keywords written with several blanks or a tab between the words, as the offending token and as
    # the last token before a premature end (the caret must cover / follow the token AS WRITTEN)
    for op in ('is not', 'not in', 'not like', 'not exists', 'group by', 'order by', 'partition by', 'primary key', 'nulls first',
               'nulls last', 'if exists', 'not match'):
        a_, b_ = op.split()
        for gap in ('   ', '\t', ' \t  '):
            m2 = a_ + gap + b_
            for tmpl in ('select * from t where %s null', 'select a from t where b %s', 'select a, %s from t', 'drop table %s t x y',
                         'select a from t %s', '%s select', 'select a from t where b = 1 %s %s c'):
                cases.append((tmpl.replace('%s', m2), 'two-word-token-with-gap'))
    # illegal characters after line ends other than LF and after characters that str.splitlines() (but not the lexer)
    # treats as line ends: CRLF texts, form feed / U+2028 / NEL / vertical tab inside string literals
    for s in pick[:max(20, n_stmts // 8)]:
        spans = lex_spans(D, s)
        if not spans or len(spans) < 3:
            continue
        toks = [s[a:b] for _, a, b in spans]
        crlf = toks[0]
        for i, t in enumerate(toks[1:]):
            crlf += ('\r\n  ' if i % 2 == 0 else ' ') + t
        for bad in (' #', '\r\n ^ x', '\r\n\r\n   §'):
            cases.append((crlf + bad, 'illegal-char-crlf'))
        # the illegal character on the FIRST, a middle and the last line of a text of several lines
        for k_ in sorted({0, len(toks) // 2, len(toks) - 1}):
            cases.append((' '.join(toks[:k_ + 1]) + ' # ' + '\n'.join(toks[k_ + 1:]) + '\n', 'illegal-char-line-position'))
            cases.append((toks[0] + ' § \n' + '\n  '.join(toks[1:]), 'illegal-char-line-position'))
        for ch in ('\x0c', '\u2028', '\x85', '\x0b', '\u2029', '\x1c'):
            cases.append(("select 'a%sb' as c1,\n  'x' as c2\nfrom t %s where y = ^ 1" % (ch, "/* %s */" % ch), 'illegal-char-after-unicode-linebreak'))
            cases.append(("select 'a%sb' as c1 ^" % ch, 'illegal-char-after-unicode-linebreak'))
    return cases


def feature(res):
    """Input-side coordinates of a caret failure."""
    sql = res['sql']
    toks = res.get('toks') or []
    bad = res.get('bad')
    f = []
    if '/*' in sql and re.search(r'/\*[^*]*\n', sql):
        f.append('multiline-comment')
    if bad and bad <= len(toks):
        if len(toks[bad - 1]['val']) == 0:
            f.append('bad-token-empty-value')
    elif bad == 0 and toks and len(toks[-1]['val']) == 0:
        f.append('last-token-empty-value')
    if bad == 0 and re.search(r'(--[^\n]*|/\*[\s\S]*?\*/|\s)\s*$', re.sub(r'[\s;]+$', '', sql)) is not None:
        f.append('trailing-comment')
    return '+'.join(f) or 'plain'


def run(ctx):
    thorough = ctx.tier == 'thorough'
    r = ctx.tlc('ErrorMsgMC', cfg='ErrorMsgMC4.cfg' if thorough else 'ErrorMsgMC.cfg', name='errormsg_mc', timeout=3000)
    if r.violated or not r.ok:
        raise MachineryError('ErrorMsgMC: the transcription of error_location violates CaretOK on a small layout: %s'
                             % r.violated)
    ctx.cov['design_layouts'] = r.distinct
    cases = build_cases(ctx, 100000 if thorough else 350, 40 if thorough else 12)
    for f in ctx.findings:
        rp = f.get('replay') or {}
        if 'sql' in rp:
            cases.insert(0, (rp['sql'], 'known-finding-replay'))
    results = pmap(_one, cases, chunksize=16)
    rej = [x for x in results if x['final'] in ('ParsingException', 'LexError') and x.get('pm')]
    # driver traces + suggestion shiftability
    verd = slycheck.validate_traces(ctx, slycheck.dialect_tables(ctx, D), [x['trace'] for x in rej], 'trace_c19')
    # message judgement
    mtr = []
    midx = []
    for i, x in enumerate(rej):
        pm = x['pm']
        if any(10 in t['val'] for t in (x.get('toks') or [])):
            # a token that itself spans lines: "the source line" of the message is not well defined; not judged
            ctx.cov['skipped_token_spans_lines'] = ctx.cov.get('skipped_token_spans_lines', 0) + 1
            continue
        if pm.get('malformed'):
            ctx.violation('message-malformed:%s' % pm['malformed'], 'error message has no caret/source structure',
                          {'sql': x['sql'], 'msg': x['msg']})
            continue
        msg = {'lines': [codes(l) for l in pm['lines']], 'dashes': pm['dashes'], 'carets': pm['carets']}
        if pm['kind'] == 'lex':
            mtr.append({'kind': 'lex', 'ch': x.get('lexch', 0), 'msg': msg, 'toks': [], 'bad': 0})
        else:
            if x['bad'] is None or not x['toks']:
                continue
            mtr.append({'kind': pm['kind'], 'toks': x['toks'], 'bad': x['bad'], 'msg': msg, 'ch': 0})
        midx.append(i)
    path = ctx.work / 'msgtraces.json'
    dump_json(path, mtr)
    tr = ctx.tlc('ErrorMsgTrace', env={'VERIF_TRACES': path}, name='errormsg_trace', timeout=3000)
    if not tr.ok:
        raise MachineryError('ErrorMsgTrace failed: %s' % tr.errors[:3])
    mver = {}
    for item in tr.prints('ACC'):
        mver[item[0]] = item[1]
    if len(mver) != len(mtr):
        raise MachineryError('ErrorMsgTrace judged %d of %d messages' % (len(mver), len(mtr)))
    n_caret_checked = n_sugg_checked = drift = 0
    for j, i in enumerate(midx):
        x = rej[i]
        flags = mver[j + 1]
        n_caret_checked += 1
        if 'Caret' in flags or 'LexCaret' in flags:
            bt = x.get('bad')
            tk = x.get('toks') or []
            if bt and bt <= len(tk) and tk[bt - 1].get('lex') != tk[bt - 1].get('val'):
                # the offending token is one whose VALUE the lexer rewrote (string quotes/escapes, @variables): the message is
                # built from values, so the carets cover the rewritten text, not what was written
                ctx.violation('caret:offending-token-value-rewritten:%s' % tk[bt - 1].get('ty'),
                              'the carets cover the rewritten token value, not the token as written',
                              {'sql': x['sql'], 'msg': x['msg'], 'bad_token_index': bt, 'kind': x['kind']})
                continue
            ctx.violation('caret:%s:%s' % (x['pm']['kind'], feature(x)),
                          'the caret line does not mark exactly the offending token in the line printed above it',
                          {'sql': x['sql'], 'msg': x['msg'], 'bad_token_index': x.get('bad'), 'kind': x['kind']})
        elif 'ModelDiffers' in flags:
            drift += 1
    for x, v in zip(rej, verd):
        if x['pm'].get('kind') == 'syntax' or x['pm'].get('kind') == 'eof':
            if v is None:
                continue
            if x['trace'].get('sugg'):
                n_sugg_checked += len(x['trace']['sugg'])
                for j in v[2]:
                    t = x['sugg_judged'][j - 1]
                    nd = len(x.get('sugg_disp') or [])
                    if len(x['trace']['sugg'][j - 1]) != 1:
                        sig = 'suggestion-not-acceptable:text-is-not-one-keyword:%s' % t
                    elif nd == 1:
                        sig = 'suggestion-not-acceptable:single-candidate-unverified'
                    elif x['pm']['kind'] == 'eof':
                        sig = 'suggestion-not-acceptable:end-of-input-candidates-unfiltered'
                    else:
                        sig = 'suggestion-not-acceptable:verified-candidate:%s' % t
                    ctx.violation(sig,
                                  'the suggested text %r cannot be shifted at the error position (neither inserting it '
                                  'nor substituting it lets the parser proceed)' % t,
                                  {'sql': x['sql'], 'msg': x['msg'], 'token': t})
    ctx.cov['traces_validated_against_impl'] += sum(1 for v in verd if v is not None) + len(mver)
    ctx.cov['evaluations'] = len(cases)
    ctx.cov['messages_judged'] = n_caret_checked
    ctx.cov['suggested_tokens_checked'] = n_sugg_checked
    ctx.cov['message_differs_from_transcription'] = drift
    kinds = {}
    for x in rej:
        kinds[x['pm']['kind']] = kinds.get(x['pm']['kind'], 0) + 1
    ctx.cov['message_kinds'] = kinds
    for x in rej[::max(1, len(rej) // 5)]:
        ctx.sample({'sql': x['sql'], 'msg': x['msg'], 'bad_token_index': x.get('bad')})
    ctx.assumptions += ['weakest reading: the caret span is judged against the source line as printed in the message '
                        '(token values after lexer rewriting), not against the raw source text',
                        'suggestions: "lets parsing proceed" = the token can be shifted from the error configuration',
                        'placeholders [identifier]/[number]/[string] are not judged']
    return ctx.finish(exhaustive=False)


def replay(ctx, path):
    rec = json.load(open(path))['replay']
    res = _one((rec['sql'], 'replay'))
    print(res['msg'])
    print('bad token index (validated driver trace):', res.get('bad'))
    return 0
