"""Toy grammars compiled by the repository's own sly, with the three error-callback shapes.

They exist so that every branch of sly/yacc.py Parser.parse -- including the recovery branches
that the dialect grammars cannot reach while MindsDBParser.error drains the token stream -- is
bound to spec/SlyDriver.tla by exhaustive trace validation.
"""
from sly import Parser

from mindsdb_sql.exceptions import ParsingException


class _CbMixin:
    cb_style = 'raise'

    def error(self, p, expected_tokens=None):
        if self.cb_style == 'raise':
            if p:
                raise ParsingException('Syntax error at token %s' % p.type)
            raise ParsingException('Syntax error at EOF')
        if self.cb_style == 'record_drain':
            self.error_info = dict(tokens=self.used_tokens.copy() + list(self.tokens), bad_token=p,
                                   expected_tokens=expected_tokens)
            return
        self.error_info = dict(tokens=self.used_tokens.copy(), bad_token=p, expected_tokens=expected_tokens)
        return


class ExprParser(_CbMixin, Parser):
    tokens = {'SEL', 'PLUS', 'TIMES', 'LP', 'RP', 'NUM', 'XX'}
    precedence = (('left', 'PLUS'), ('left', 'TIMES'))

    @_('SEL e')
    def q(self, p):
        return ('q', p.e)

    @_('e PLUS e', 'e TIMES e')
    def e(self, p):
        return (p[1], p.e0, p.e1)

    @_('LP e RP')
    def e(self, p):
        return p.e

    @_('NUM')
    def e(self, p):
        return 'n'


class ListParser(_CbMixin, Parser):
    tokens = {'A', 'B', 'SEMI', 'XX'}

    @_('stmts SEMI stmt')
    def stmts(self, p):
        return p.stmts + [p.stmt]

    @_('stmt')
    def stmts(self, p):
        return [p.stmt]

    @_('A B', 'A')
    def stmt(self, p):
        return 'ab' if len(p) == 2 else 'a'


class ErrListParser(_CbMixin, Parser):
    """Statement list with an `error` production: what the dialect grammars must never contain."""
    tokens = {'A', 'B', 'SEMI', 'XX'}

    @_('stmts SEMI stmt')
    def stmts(self, p):
        return p.stmts + [p.stmt]

    @_('stmt')
    def stmts(self, p):
        return [p.stmt]

    @_('A B', 'A')
    def stmt(self, p):
        return 'ab' if len(p) == 2 else 'a'

    @_('error')
    def stmt(self, p):
        return 'err'


class NullParser(_CbMixin, Parser):
    """Balanced parentheses with a nullable start symbol."""
    tokens = {'LP', 'RP', 'XX'}

    @_('LP s RP s')
    def s(self, p):
        return ('p', p.s0, p.s1)

    @_('')
    def s(self, p):
        return ('e',)


class RaisingParser(_CbMixin, Parser):
    """A grammar action that raises ParsingException (like the LIMIT / keyword-order checks)."""
    tokens = {'A', 'B', 'XX'}

    @_('items')
    def top(self, p):
        return p.items

    @_('items item')
    def items(self, p):
        return p.items + [p.item]

    @_('item')
    def items(self, p):
        return [p.item]

    @_('A')
    def item(self, p):
        return 'a'

    @_('B')
    def item(self, p):
        raise ParsingException('B is not allowed here')


TOYS = {
    'expr': ExprParser,
    'list': ListParser,
    'errlist': ErrListParser,
    'null': NullParser,
    'raising': RaisingParser,
}
