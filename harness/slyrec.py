"""Recorder for the guarded sink in sly/yacc.py and helpers to turn one parse into a trace."""
import threading

import sly.yacc as yacc


class Tok:
    """Synthetic token for toy grammars."""
    __slots__ = ('type', 'value', 'lineno', 'index', 'end')

    def __init__(self, type_, i=0):
        self.type = type_
        self.value = type_.lower()
        self.lineno = 1
        self.index = i
        self.end = i + 1

    def __repr__(self):
        return 'Tok(%s)' % self.type


def ev(e, ty='', i=0, n=0):
    return {'e': e, 'ty': ty, 'i': i, 'n': n}


class Recorder:
    """One Recorder per traced top-level parse; nested parses (suggestion re-parses on the same
    parser object) are recorded as separate runs in self.runs."""

    def __init__(self, keep_tokens=False):
        self.runs = []          # list of event lists, one per Parser.parse call, in call order
        self.cur = None
        self.npull = 0
        self.keep_tokens = keep_tokens
        self.tokens = []        # token objects pulled in the first run (for positions)
        self.expected = []      # expected token lists per error_cb_begin (first run)
        self.states_at_error = []

    def __call__(self, parser, name, *a):
        if name == 'begin':
            self.cur = []
            self.runs.append(self.cur)
            self.npull = 0
            return
        c = self.cur
        if name == 'pull':
            tok = a[0]
            if tok is None:
                c.append(ev('pull', '$end', 0))
            else:
                self.npull += 1
                if self.keep_tokens and len(self.runs) == 1:
                    self.tokens.append(tok)
                c.append(ev('pull', tok.type, self.npull))
        elif name == 'poplook':
            c.append(ev('poplook', a[0].type))
        elif name == 'shift':
            c.append(ev('shift', a[1].type, 0, a[0]))
        elif name == 'reduce_begin':
            c.append(ev('reduce_begin', '', 0, a[0]))
        elif name == 'reduce':
            c.append(ev('reduce', '', a[1], a[0]))
        elif name == 'error_cb_begin':
            tok = a[1]
            if len(self.runs) == 1:
                self.expected.append(list(a[2]))
                self.states_at_error.append((a[0], list(parser.statestack)))
            c.append(ev('error_cb_begin', tok.type if tok is not None else '$end', len(a[2]), a[0]))
        elif name == 'error_cb':
            tok = a[0]
            c.append(ev('error_cb', '' if not tok else getattr(tok, 'type', '?')))
        elif name in ('discard', 'nuke'):
            c.append(ev(name, a[0].type))
        elif name == 'pop':
            c.append(ev('pop', '', 0, a[0]))
        else:   # accept, return_none, reset_errcount, bail, push_error
            c.append(ev(name))


class _CountingIter:
    def __init__(self, it):
        self.it = it
        self.n = 0

    def __iter__(self):
        return self

    def __next__(self):
        v = next(self.it)
        self.n += 1
        return v


class ParseRecorder(Recorder):
    """Additionally measures how many tokens the error callback takes from the token iterator."""

    def __call__(self, parser, name, *a):
        if name == 'error_cb_begin':
            super().__call__(parser, name, *a)
            self._saved = parser.tokens
            self._cnt = _CountingIter(iter(parser.tokens))
            parser.tokens = self._cnt
            return
        if name == 'error_cb':
            parser.tokens = self._saved
            tok = a[0]
            self.cur.append(ev('error_cb', '' if not tok else getattr(tok, 'type', '?'), self._cnt.n))
            return
        super().__call__(parser, name, *a)


def finish_events(events, exc):
    """Drop the reduce_begin markers and synthesise the exception events the hooks cannot emit."""
    out = []
    last = events[-1] if events else None
    for e in events:
        if e['e'] != 'reduce_begin':
            out.append(e)
    if exc is not None and last is not None:
        cls = type(exc).__name__
        if last['e'] == 'reduce_begin':
            out.append(ev('action_raise', cls, 0, last['n']))
        elif last['e'] == 'error_cb_begin':
            out.append(ev('cb_raise', cls))
        else:
            out.append(ev('pull_raise', cls))
    elif exc is not None:
        out.append(ev('pull_raise', type(exc).__name__))
    return out


def traced_parse(parser, tokens_iter, keep_tokens=False):
    """Run parser.parse(tokens_iter) with the sink installed. Returns (result, exc, recorder)."""
    rec = ParseRecorder(keep_tokens)
    prev = yacc._verif_sink
    yacc._verif_sink = rec
    res, exc = None, None
    try:
        res = parser.parse(tokens_iter)
    except BaseException as e:   # noqa
        exc = e
    finally:
        yacc._verif_sink = prev
    return res, exc, rec
