"""Regenerate MANIFEST.json from the table below (kept in one place so it is always valid)."""
import json
from pathlib import Path

V = Path(__file__).resolve().parent.parent

CHECKS = {}   # pid -> dict(level, text, note, technique, design_ref)
NA = {}       # pid -> reason


def check(pid, level, text, note, technique, design_ref):
    CHECKS[pid] = dict(level=level, text=text, note=note, technique=technique, design_ref=design_ref)


check('C05', 'model_checking',
      'TLC checks accept-soundness, no-silent-drop, no-progress-after-error and termination of the SlyDriver '
      'specification exhaustively on toy grammars (all inputs up to a bound, three error-callback shapes, hazards '
      'found exactly where expected); every branch of the real sly loop is bound to the spec by validating all '
      'toy runs; every parse_sql run over the corpus (test statements, token mutants, garbage prefix/suffix, '
      'concatenations, 3 dialects) is validated by TLC against the real LR tables with table-free derivation '
      'monitors evaluated at each recorded step.',
      'Bounded: toy inputs up to length 4/5; dialect grammars only through recorded runs. Trusts the hook events '
      'in sly/yacc.py and the dialect lexer as the definition of the token stream.',
      'TLA+ spec of the LR driver + TLC exhaustive check + TLC trace validation of recorded parser runs',
      'DESIGN.md 2.1, 2.2, 5/C05')

check('C02', 'model_checking',
      'TLC checks the call-level machine ParseSql (outcome alphabet, nested-run budget, termination; the internal-error '
      'leak is exhibited when allowed) and Terminates/OutcomeAllowed of SlyDriver on toy grammars; every parse_sql '
      'call over the corpus (test strings, accepted statements, token mutants incl. sign/key-removal mutants, random '
      'token soups with unicode, 3 dialects) is recorded at driver level and call level and both traces are validated '
      'by TLC with the invariants evaluated at every step. Also: GrammarGen sentences and one sentence per production; '
      'ClauseOrder.tla (the SELECT clause-order checker as an automaton, proved by TLC to accept exactly the clause '
      'lists in SQL order) with every clause list up to 4 (thorough 5) parsed by the three real parsers and judged by TLC.',
      'Inputs are sampled (seeded); RecursionError on deep nesting is not provoked; termination = finite trace within '
      'a linear step budget.',
      'TLA+ specs SlyDriver + ParseSql, TLC exhaustive design check + TLC trace validation of recorded calls',
      'DESIGN.md 2.1, 2.3, 5/C02')
check('C19', 'model_checking',
      'TLC proves the caret contract CaretOK for the TLA+ transcription of error_location on every layout of up to 3 '
      '(thorough 4) tokens; every real message for generated rejected inputs in generated layouts is judged by TLC '
      '(CaretOK and equality with the transcription); every suggested concrete token is decided shiftable or not by '
      'TLC from the real LR tables at the TLC-validated error configuration.',
      'Weakest reading: carets are judged against the line printed in the message; suggestions need only be '
      'shiftable at the error configuration. mindsdb dialect only (the property is about it).',
      'TLA+ spec of the message contract + LR tables, TLC exhaustive layout check + TLC judgement of recorded messages',
      'DESIGN.md 2.3, 5/C19')
check('C20', 'model_checking',
      'TLC proves Isolation and OwnerExclusive of Calls.tla for fresh instances under all interleavings and exhibits '
      'the corrupting interleaving for cached instances; every interleaving TLC enumerates is forced on real threads '
      '(driver-step granularity for parsing via the sink, method granularity for planner/renderer), results are '
      'compared with sequential baselines and the combined logs are validated by TLC (one owner per instance); '
      'histories (shuffled orders, failing calls, one shared catalog) and PYTHONHASHSEED values are compared with '
      'fresh-process baselines.',
      'Forced interleavings cover the first steps of each call; free-running threads, histories and hash seeds are '
      'sampled.',
      'TLA+ spec of concurrent calls, TLC-enumerated schedules replayed on real threads + TLC trace validation',
      'DESIGN.md 2.9, 5/C20')

check('C03', 'model_checking',
      'ExprPrec.tla enumerates every operator tree with 1..2 operator nodes over all operators (minimal and full '
      'parentheses) and 3 nodes over tier representatives (thorough: all operators), with the parentheses the '
      'reference grouping needs, the expected tree and its 3-valued value on {NULL,0,1,2}^3; the reference is '
      'cross-checked against sqlite3 on every case before it judges; every printed text is parsed in 7 expression '
      'contexts by the three dialects and the tree read by reflection must equal the spec tree, flags included.',
      'Bounded tree size; leaves are columns; operators/contexts a dialect rejects outright are not judged for it.',
      'TLA+ reference precedence spec enumerated by TLC, cases replayed into the real parsers; sqlite3 as oracle check',
      'DESIGN.md 2.5, 5/C03')
check('C13', 'model_checking',
      'Traversal.tla states the walker contract (Schema of child slots in textual order, Expected visit sequence, '
      'Replace, Judge); TraversalGen enumerates every node kind in every slot of every kind (depth 2, thorough 3) and '
      'the harness builds and walks the real ASTs; parser-produced trees are walked too; every recorded visit '
      'sequence and every tree after a replacing visitor (each visit position) is judged by TLC.',
      'Node kinds outside Schema are leaves; LIMIT/OFFSET constants and column definitions are not required visits.',
      'TLA+ contract + TLC-generated cases replayed into query_traversal, recorded runs judged by TLC',
      'DESIGN.md 2.8, 5/C13')

check('C04', 'model_checking',
      'Lexeme.tla states what string literals (4 quoting styles) and identifier paths denote as scanner automata; '
      'LexemeMC proves the reference reads back every body of up to 3 (thorough 4) units and every path of up to 3 '
      'parts and emits the cases; each (text, value) is parsed by the three dialects in several positions and the '
      'tree must hold the denoted value; each value / part list is printed by the real encoders and the printed '
      'characters are judged by TLC with the scanner (LexemeTrace). Listed findings are pinned per failing input.',
      'Alphabet of character classes, bounded length; decimals compared as floats; numbers checked by a Python list.',
      'TLA+ scanner automata as independent oracle, TLC-enumerated cases replayed, TLC-judged encoder output',
      'DESIGN.md 2.4, 5/C04')

check('C07', 'model_checking',
      'Every string over 11 character classes up to length 3 (thorough 4) emitted by LexemeMC, plus typed constants, '
      'is placed in 5 positions and rendered through 6 output paths; the statement must be the benign statement with '
      'exactly one literal exchanged, and TLC (LexemeTrace) decides with the target scanner of Lexeme.tla whether '
      'that literal denotes exactly the value and ends at its last character; sqlite literals are also executed.',
      'No engine offline for mysql/postgresql/mssql/oracle: their lexical rules are the TLA+ scanners.',
      'TLA+ scanner automata of the target dialects judge the rendered literals; TLC-enumerated values',
      'DESIGN.md 2.4, 5/C07')

check('C16', 'model_checking',
      'RawQuery.tla transcribes tokens_to_string as a step machine; TLC proves it stores every layout of 3 tokens '
      'verbatim when token values equal their lexemes and exhibits the loss when the lexer rewrote a value; RawGen '
      'enumerates inner token sequences x separators, each embedded in 11 commands; the stored text is judged by TLC '
      '(same lexemes as written; equal to the transcription) and valid inner SELECTs must re-parse to the same tree.',
      'Lexemes are those of the dialect lexer; bounded sequence length; thorough samples length-3 sequences.',
      'TLA+ transcription of the text rebuild + TLC-enumerated inner queries, stored texts judged by TLC',
      'DESIGN.md 2.4, 5/C16')

check('C12', 'model_checking',
      'Prepared.tla states the prepare/info/execute protocol; TLC enumerates every history of 3 (thorough 4) actions '
      'with the outcomes the contract allows; each history is driven through a real QueryPlanner for 27 statements '
      'with placeholders in every listed position and every observed outcome must be allowed, an inlined plan must '
      'equal the plan of the text with the values written in textual order; the numbering order of placeholders is '
      'judged by TLC against the textual order defined by Traversal.tla.',
      'Statement list is fixed (27 shapes); value lists are distinct integers; a shape the prepare step refuses is not '
      'judged further.',
      'TLA+ protocol spec, TLC-enumerated histories replayed into the planner; TLC-judged placeholder order',
      'DESIGN.md 2.9, 5/C12')

check('C08', 'translation_validation',
      'QuerySpace.tla enumerates predictor-free queries over two integrations (joins of every kind, WHERE shapes '
      'incl. NOT/OR/const-left, IN/NOT IN and scalar subqueries, set operations, CTEs, nested selects, grouping, '
      'ordering, LIMIT/OFFSET); each is planned by the real planner; PlanExec.tla runs the plan step by step under the '
      'documented step meanings, exploring every admissible outcome, on a seeded sample of (thorough: all 441) small '
      'databases per plan; the last result must be an admissible answer of the original query under SQLSem.tla, '
      'which is cross-checked against sqlite3 on the same queries before it judges.',
      'Integer-valued two-column tables with <= 2 rows; step meanings per DESIGN A.4; queries or plans outside the '
      'semantic fragment are counted, not judged; listed findings are pinned per query text.',
      'translation validation in TLC: TLA+ reference semantics + plan interpreter, oracle cross-checked with sqlite3',
      'DESIGN.md 2.6, 5/C08')
check('C11', 'translation_validation',
      'QuerySpace.tla (single family) enumerates single-integration query bodies x alias spellings x catalogs; the plan '
      'must be exactly one fetch step for that integration, and PlanExec/SQLSem evaluate the pushed query on the '
      'integration and the original on the merged database over small databases: same rows, order and column names.',
      'Same data model as C08; 17 query bodies x 5 alias spellings x 3-4 catalogs.',
      'translation validation in TLC of the pushed-down query against the original (TLA+ reference semantics)',
      'DESIGN.md 2.6, 5/C11')

check('C09', 'model_checking',
      'PlanBuilder.tla transcribes the join-sequence / partition algorithm of plan_join.py at skeleton level; TLC proves '
      'Numbered, ForwardOnly and LastIsAnswer over all join sequences of up to 4 items (tables, semi-join tables, '
      'models with/without partition_size) and exhibits the counterexample of the unrepaired algorithm; every model '
      'behaviour is planned by the real planner and the skeletons compared (binding); every real plan from the '
      'planner tests own queries/catalogs and from generated join sequences, DML and set operations under 5 catalog '
      'shapes is projected by reflection and judged by TLC (PlanTrace), and planning outcomes are restricted to '
      'plan / PlanningException / NotImplementedError.',
      'LastIsAnswer is read structurally (every earlier result is consumed later). Query/catalog space is sampled.',
      'TLA+ model of the plan builder checked by TLC + TLC judgement of recorded plan skeletons',
      'DESIGN.md 2.7, 5/C09')

check('C10', 'model_checking',
      'Routing.tla states the name-resolution contract (Resolve, ModelOf) and the obligations on routing facts; 18 table '
      'positions x 5 kinds of referenced object x 3 qualifier spellings x 3-4 catalog representations (plus the '
      'planner tests own queries) are planned; table occurrences of the original and of every shipped query are found '
      'by an independent reflection walk; TLC decides: every data table fetched from its integration with the qualifier '
      'removed, no foreign table in a fetch, no model shipped, every model applied in its project with its version.',
      'Integration names compared case-insensitively; DML target tables and the CREATE TABLE default are not judged.',
      'TLA+ resolution contract, TLC judgement of routing facts extracted from real plans',
      'DESIGN.md 2.7, 5/C10')

check('C14', 'model_checking',
      'ModelJoin.tla defines for a WHERE tree its top-level conjuncts, the atoms that may be pushed to the table, the '
      'atoms that become model arguments, and the residual filter (3-valued equivalence over all valuations); '
      'ModelJoinGen enumerates all 655 WHERE trees of depth <= 2 over 5 atoms and proves pushing sound; each is '
      'rendered in 6 join spellings and planned; TLC judges the facts read off the plan (pushed conditions, row_dict, '
      'outer filter); USING params, column map, model identity/version and the model input step are compared.',
      'One table-model pair (plus a second table variant); atoms are column-vs-constant comparisons; plan_predictor '
      '(dead code) is not exercised.',
      'TLA+ contract on WHERE trees, TLC-enumerated trees replayed into the planner, TLC-judged plan facts',
      'DESIGN.md 2.7, 5/C14')

check('C15', 'translation_validation',
      'TSWindow.tla defines the set of admissible model inputs (selected rows + the window most recent rows before the '
      'lower bound, per partition, ties chosen freely, NULL times excluded); 9 time conditions x partition filters x '
      'window 1..2 x 0..2 group columns x model left/right x LIMIT are planned by the real planner and PlanExec.tla '
      'executes the data part of each plan (DISTINCT partition fetch, map-reduce with $var injection, ORDER BY/LIMIT '
      'fetches) over a seeded sample of (thorough: all) tables of <= 3 rows, exploring every admissible outcome; the '
      'rows handed to the model must be admissible. Output filter, LIMIT placement and refusals are compared.',
      'Small tables (ties, NULL times, empty partitions included); the model is not executed.',
      'translation validation in TLC: plan interpreter + TLA+ definition of the admissible model input',
      'DESIGN.md 2.7, 5/C15')

check('C06', 'translation_validation',
      'About 100 queries (all join kinds and spellings, subqueries, set operations, CTEs, grouping, HAVING, NULLS '
      'FIRST/LAST, LIMIT/OFFSET, CASE, DISTINCT) and 14 DML statements are rendered for sqlite with fallback off; the '
      'rendered text is executed by sqlite3 on seeded small databases and TLC (SemOracle over SQLSem.tla, incl. '
      'ApplyDml) decides whether the observed rows / table contents are admissible for the ORIGINAL statement; the '
      'original text is executed too and must be admissible (oracle check).',
      'Only the sqlite rendering is executed; mysql/postgresql renderings are compared textually (undecided where '
      'they differ); window functions and DDL are not judged.',
      'translation validation: rendered text executed on sqlite3, judged by the TLA+ reference semantics in TLC',
      'DESIGN.md 2.6, 5/C06')

check('C18', 'model_checking',
      'Heap.tla models object graphs, deep copy vs a hand-written fixed-field-list copy, and single-attribute '
      'mutation scripts; TLC proves disjointness / original-untouched / copy-equal for the deep copy and exhibits '
      'sharing and dropping for fields outside the list. On real trees (three dialects) and plans: reachable mutable '
      'object sets of original and copy()/deepcopy must be disjoint, every single-attribute mutation of the copy must '
      'leave the original projection and text unchanged, equality of trees / steps / plans / Result must be lawful and '
      'hash(Result) total; the observations are judged by TLC (HeapTrace).',
      'Corpus trees and plans are sampled; mutations are the kinds the spec names, one at a time.',
      'TLA+ heap/copy model checked by TLC + TLC-judged observations of real copies and mutations',
      'DESIGN.md 2.9, 5/C18')

check('C17', 'model_checking',
      'RenderCall.tla models one render call (translate, compile, two-class except, fallback); TLC proves the contract '
      'when only documented classes can be raised inside the try block and exhibits the leak for an undocumented class '
      'and for a compile step outside the try block. Every tree from the corpora (test statements, TLC GrammarGen '
      'sentences, one sentence per grammar production, 39 targeted unsupported shapes) x 7 dialect names x fallback '
      'on/off x get_string/get_exec_params is rendered; outcome, exception class and the tree projection before/after '
      'are judged by TLC (RenderTrace).',
      'Trees come from the mindsdb parser; dialect names as listed in the property.',
      'TLA+ model of the render call checked by TLC + TLC-judged records of real render calls',
      'DESIGN.md 2.9, 5/C17')

check('C01', 'exploration',
      'Inputs: the test-suite statements, sentences of the exported LALR grammars generated by TLC (GrammarGen.tla, '
      'fixed pool) and one sentence per grammar production, for the three dialects, plus targeted quoting / literal / '
      'placeholder shapes. Each accepted text is driven through parse, print, parse, print and copy(); the recorded '
      'pipeline (digests of a reflection projection that does not use __eq__/to_tree) is validated by TLC against '
      'RoundTrip.tla: re-parse accepted, same tree, same second print, copy equal and printing alike.',
      'Sampled input space (grammar sentences up to 14 tokens); the specification supplies inputs and the idempotence '
      'machine, the property itself is decided on the observed pipelines. Many printers of mindsdb-only statements do '
      'not round-trip: listed as known findings pinned input by input.',
      'TLC-generated grammar sentences replayed through parse/print/parse/copy + TLC-judged pipeline records (RoundTrip.tla)',
      'DESIGN.md 2.1, 5/C01')

EXTRA_TEXT = {
    'C15': ' LIMIT 0 is a limit.',
    'C06': ' The text rendered for a target must not depend on how the target is named (name, alias postgres, sqlalchemy dialect class); casts to every type name. Window-function statements (outside the TLA+ semantics) are judged by an engine-differential pass on sqlite3 only.',
    'C05': ' TailGen.tla enumerates what may follow a complete statement (semicolons, comments, tokens, line breaks; three-valued contract) and each tail is spelled after real statements.',
    'C04': ' Identifier paths are also rendered through SQLAlchemy for eleven ways of naming a dialect (names, the alias postgres, dialect classes) and the rendered statement is matched by TLC (TPath / MatchSegs in Lexeme.tla) under the target rules; long names and long literal bodies. String constants with special characters are rendered next to the names.',
    'C01': ' Also: derivation trees of depth 2-3 at every self-recursive nonterminal (two clauses / options of one statement together, in both orders) and every constant position spelled with every kind of constant. Clause-bearing nonterminals are also expanded as operands of other productions (operand cover).',
    'C02': ' Also: edge lexemes (empty strings, zero, quoted names with blanks/dots) in the grammar sentences, one representative '
           'per Unicode category in 9 positions, an adversarial-lexing termination probe (30 s budget), and parse calls forced to '
           'overlap in time along schedules enumerated by TLC (Calls.tla). Clause combinations (pair cover), constants of every kind and string positions spelled as dates / numbers / JSON / SQL text: outcome-only pass.',
    'C03': ' White-space layouts (also inside two-word operators such as IS NOT / NOT IN) must not change the grouping. Comments count as gaps too.',
    'C07': ' Positions next to an operator sign (unary minus, subtraction): the literal must not fuse with it into a comment marker. Render paths include the alias postgres and the five dialect classes; numbers printed by the tree itself must be one number token of the library lexer.',
    'C08': ' Query space includes CTEs named like tables of another integration; a fetch that still carries an integration '
           'qualifier cannot be evaluated by its integration and counts as a failure. Comma joins (Implicit) and composite ON clauses (JoinOn: negated, disjoined, constant-first, inequality) are families of QuerySpace.tla.',
    'C09': ' Call histories: several queries on one QueryPlanner object / fresh planners sharing the catalog objects; every plan judged. ON clauses that name the item written directly before (a model column), with and without partition_size.',
    'C10': ' Call histories as in C09; versioned and plain references to one model in one statement. Sub-selects in GROUP BY / HAVING / ORDER BY / targets / WHERE of a query that joins tables of two integrations.',
    'C11': ' Correlated sub-queries (SQLSem resolves outer scopes) and the same integration under other names (crm_views, s3files, My_Db).',
    'C12': ' Numbering is also judged on every AND/OR/NOT tree of ExprPrec.tla (up to 3 operators, minimal and full parentheses) with a '
           'placeholder at each leaf in WHERE / HAVING / ON / DELETE / UPDATE conditions.',
    'C13': ' Visits of nodes that the visitor itself returned as replacements are counted and judged (a replacement is never visited). A call of the visitor with None (an empty slot "visited") is a violation on parser-produced trees.',
    'C14': ' Variants: constant-first spellings of table conditions, a CTE named like the model (unused and used). ON clauses: ModelJoinOnGen.tla enumerates every ON tree of depth <= 2 over the join equality and two comparisons x 4 join kinds, with what may restrict the joined table fetch (AllowedPushOn, SemiJoinAllowed); legacy dict-form catalogs; USING keys addressed through the alias in another letter case.',
    'C16': ' Lexeme kinds include doubled single quotes inside a double-quoted literal and a semicolon inside quotes / a quoted name.',
    'C18': ' Steps and plans of one query planned under different catalogs (ordinary vs time-series model, names vs dicts) are compared '
           'pairwise both ways: symmetry, equal => structurally the same, transitivity. Nested JSON arrays / objects of six shapes in every dict-valued statement position.',
    'C19': ' Illegal-character reports are judged on CRLF texts and after U+2028 / FF / NEL / VT inside literals.',
    'C20': ' Call kinds include prepare_steps / get_statement_info; planner call histories (one planner object, shared catalog objects) '
           'must give the plan of a fresh planner; pairs of rejected inputs are forced through block-shaped 5-step schedules. The same catalog objects handed to calls with another predictor_namespace; the dialect classes are compared with their state before the first call of the process.',
}

ALL = ['C%02d' % i for i in range(1, 21)]


def main():
    checks = []
    for pid in ALL:
        if pid in CHECKS:
            c = CHECKS[pid]
            checks.append({
                'property_id': pid,
                'quick_cmd': './check %s --tier quick' % pid,
                'thorough_cmd': './check %s --tier thorough' % pid,
                'evidence_file': 'evidence/%s.json' % pid,
                'replay_cmd_template': './check %s --replay {path}' % pid,
                'engine': 'tlc',
                'level_claimed': {'category': c['level'], 'text': c['text'] + EXTRA_TEXT.get(pid, ''), 'design_ref': c['design_ref']},
                'level_note': c['note'],
                'technique': c['technique'],
            })
    na = [{'property_id': pid, 'reason': NA.get(pid, 'check not built yet (work in progress; see DESIGN.md build order)')}
          for pid in ALL if pid not in CHECKS]
    m = {
        'version': 1,
        'setup_cmd': 'sh setup.sh',
        'hooks': {
            'guard': 'MINDSDB_SQL_VERIF',
            'enable': 'environment variable MINDSDB_SQL_VERIF=1 (read once at import of sly/yacc.py) plus a sink '
                      'installed in sly.yacc._verif_sink; ./check sets both',
            'baseline_off_cmd': 'cd /repo && env -u MINDSDB_SQL_VERIF /venv/bin/python -m pytest -q -p no:cacheprovider',
            'source_commits': json.load(open(V / 'hook_commits.json')) if (V / 'hook_commits.json').exists() else [],
            'add_only': True,
        },
        'engines': [{'name': 'tlc', 'path': '/opt/veriftools/tla/tla2tools.jar',
                     'serves_properties': sorted(CHECKS), 'kind_free_text':
                     'TLC 1.8 model checker over the TLA+ modules in /verif/spec; Python harness in /verif/harness '
                     'drives /repo and records/replays traces'}],
        'checks': checks,
        'not_applicable': na,
        'notes': 'One entry point: ./check <ID> --tier quick|thorough. Known findings: known_findings.jsonl.',
    }
    (V / 'MANIFEST.json').write_text(json.dumps(m, indent=1) + '\n')


if __name__ == '__main__':
    main()
