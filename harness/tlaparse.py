"""Parser for TLA+ values as TLC prints them (tuples, sets, records, functions, strings, ints, booleans)."""
import re

_TOK = re.compile(r'\s*(<<|>>|\{|\}|\[|\]|\(|\)|\|->|:>|@@|,|"(?:[^"\\]|\\.)*"|-?\d+|[A-Za-z_][A-Za-z0-9_]*)')


class _P:
    def __init__(self, s, pos):
        self.s = s
        self.pos = pos

    def peek(self):
        m = _TOK.match(self.s, self.pos)
        return m.group(1) if m else None

    def next(self):
        m = _TOK.match(self.s, self.pos)
        if not m:
            raise ValueError('bad TLA value at %d: %r' % (self.pos, self.s[self.pos:self.pos + 40]))
        self.pos = m.end()
        return m.group(1)

    def value(self):
        t = self.next()
        if t == '<<':
            items = []
            if self.peek() == '>>':
                self.next()
                return items
            while True:
                items.append(self.value())
                t2 = self.next()
                if t2 == '>>':
                    return items
                if t2 != ',':
                    raise ValueError('expected , or >> got %r' % t2)
        if t == '{':
            items = []
            if self.peek() == '}':
                self.next()
                return items
            while True:
                items.append(self.value())
                t2 = self.next()
                if t2 == '}':
                    return items
                if t2 != ',':
                    raise ValueError('expected , or } got %r' % t2)
        if t == '[':
            rec = {}
            while True:
                key = self.next()
                arrow = self.next()
                if arrow != '|->':
                    raise ValueError('expected |-> got %r' % arrow)
                rec[key] = self.value()
                t2 = self.next()
                if t2 == ']':
                    return rec
                if t2 != ',':
                    raise ValueError('expected , or ] got %r' % t2)
        if t == '(':
            # function printed as (a :> b @@ c :> d)
            fn = {}
            while True:
                k = self.value()
                if self.next() != ':>':
                    raise ValueError('expected :>')
                fn[str(k)] = self.value()
                t2 = self.next()
                if t2 == ')':
                    return fn
                if t2 != '@@':
                    raise ValueError('expected @@ or )')
        if t.startswith('"'):
            return bytes(t[1:-1], 'utf8').decode('unicode_escape') if '\\' in t else t[1:-1]
        if t == 'TRUE':
            return True
        if t == 'FALSE':
            return False
        if re.fullmatch(r'-?\d+', t):
            return int(t)
        return t


def find_prints(out, tag):
    """Yield every value TLC printed that is a tuple whose first element is the string `tag`."""
    pat = re.compile(r'<<\s*"%s"' % re.escape(tag))
    pos = 0
    while True:
        m = pat.search(out, pos)
        if not m:
            return
        p = _P(out, m.start())
        try:
            v = p.value()
        except ValueError:
            pos = m.end()
            continue
        pos = p.pos
        yield v
