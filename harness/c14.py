"""C14 -- in a table-model join the model gets the right rows and arguments, only those.

spec   : ModelJoin.tla (TopConj, AllowedPush, ModelArgs, Residual, 3-valued equivalence); ModelJoinGen enumerates
         every WHERE tree of depth <= 2 over 5 atoms (table equality / comparison, model equalities, model comparison)
         and proves pushing allowed atoms sound.
replay : each tree is rendered in several join spellings (table JOIN model, model JOIN table, ON clause with a
         model-table equality, USING options, a second table), planned by the real planner; the facts read off the plan
         (conditions in the table's fetch, model arguments, outer filter, USING params, column map, the dataframe the
         model is applied to) are judged by TLC (ModelJoinTrace) / compared with the query.
"""
import copy
import json

from .common import MachineryError, dump_json
from .corpus import pmap
from .tlaparse import find_prints
from . import plancorpus

ATOMS = {1: ('t', 'b', '=', 1), 2: ('t', 'a', '>', 2), 3: ('m', 'x', '=', 5), 4: ('m', 'z', '=', 7), 5: ('m', 'y', '>', 3)}
VARIANTS = {
    'table-join-model': 'select * from int1.t1 as t join mindsdb.pred as m where {W}',
    'model-join-table': 'select * from mindsdb.pred as m join int1.t1 as t where {W}',
    'on-columns-map': 'select * from int1.t1 as t join mindsdb.pred as m on t.a = m.k where {W}',
    # ON clauses between table and model that are more than one equality: only top-level equalities are column mappings
    'on-columns-map-inequality': 'select * from int1.t1 as t join mindsdb.pred as m on t.a > m.k where {W}',
    'on-columns-map-negated': 'select * from int1.t1 as t join mindsdb.pred as m on not (t.a = m.k) where {W}',
    'on-columns-map-and-inequality': 'select * from int1.t1 as t join mindsdb.pred as m on t.a = m.k and t.b > m.j where {W}',
    'on-columns-map-two-equalities': 'select * from int1.t1 as t join mindsdb.pred as m on m.k = t.a and t.b = m.j where {W}',
    'on-columns-map-disjunction': 'select * from int1.t1 as t join mindsdb.pred as m on t.a = m.k or t.b = m.j where {W}',
    'using': 'select * from int1.t1 as t join mindsdb.pred as m where {W} using Opt1 = 1, m.opt2 = \'x\', M.Opt3 = 2',
    # option names that contain dots themselves, addressed to the model by its alias (the alias is the FIRST part only)
    'using-dotted-keys': 'select * from int1.t1 as t join mindsdb.pred as m where {W} using Opt1 = 1, m.opt2 = \'x\', M.Opt3 = 2, '
                         'm.engine.mode = \'fast\', m.A.b.c.d = 2, m.m.m = 3',
    'two-tables': 'select * from int1.t1 as t join int2.t2 as u on t.a = u.a join mindsdb.pred as m where {W}',
    # names that collide: the table's alias is the model's real name; another table's real name is the model's alias
    'table-alias-is-model-name': 'select * from int1.t1 as pred join mindsdb.pred as m where {W}',
    'other-table-named-like-model-alias': 'select * from int1.t1 as t join mindsdb.pred as m join int2.m as u on u.a = t.a where {W}',
    'other-table-named-like-table-alias': 'select * from int1.t1 as t join int2.t as u on u.a = t.a join mindsdb.pred as m where {W}',
    # a BETWEEN whose upper bound is a column of another table / of the model: it mentions two relations, so it may go nowhere
    'between-other-table-bound': 'select * from int1.t1 as t join int2.t2 as u on t.a = u.a join mindsdb.pred as m '
                                 'where {W} and t.a between 1 and u.c',
    'between-model-column-bound': 'select * from int1.t1 as t join mindsdb.pred as m where {W} and t.a between 1 and m.yy',
    'null-model-argument': 'select * from int1.t1 as t join mindsdb.pred as m where {W}',
    'zero-model-argument': 'select * from int1.t1 as t join mindsdb.pred as m where {W}',
    'constant-first': 'select * from int1.t1 as t join mindsdb.pred as m where {WF}',
    'constant-first-model-too': 'select * from int1.t1 as t join mindsdb.pred as m where {WFM}',
    'constant-first-two-tables': 'select * from int1.t1 as t join int2.t2 as u on t.a = u.a join mindsdb.pred as m where {WF}',
    'cte-named-like-model': 'with pred as (select a, b from int1.t3) select * from int1.t1 as t join mindsdb.pred as m where {W}',
    'cte-named-like-model-used': 'with pred as (select a, b from int1.t3) select * from int1.t1 as t join pred as c on c.a = t.a '
                                 'join mindsdb.pred as m where {W}',
    'versioned-project-model': 'select * from int1.t1 as t join proj.pred2.4 as m where {W}',
    'target-given-as-string': 'select * from int1.t1 as t join proj.pred3 as m where {W}',
    'target-given-as-list': 'select * from int1.t1 as t join proj.pred4 as m where {W}',
    # the same under a catalog given in the legacy dict form {model name: record} (another branch of the planner's constructor)
    'legacy-catalog:table-join-model': 'select * from int1.t1 as t join mindsdb.pred as m where {W}',
    'legacy-catalog:using': 'select * from int1.t1 as t join mindsdb.pred as m where {W} using Opt1 = 1, m.opt2 = \'x\', M.Opt3 = 2',
    'legacy-catalog:target-given-as-string': 'select * from int1.t1 as t join proj.pred3 as m where {W}',
    'legacy-catalog:target-given-as-list': 'select * from int1.t1 as t join proj.pred4 as m where {W}',
    'model-between-tables': 'select * from int1.t1 as t join mindsdb.pred as m join int2.t2 as u on u.a = t.a '
                            'join int1.t3 as v on v.b = m.yy where {W}',
    'model-between-tables-2': 'select * from int1.t1 as t join int2.t2 as u on u.a = t.a join mindsdb.pred as m '
                              'join int1.t3 as v on v.b = u.c and v.c = m.zz where {W}',
}


CUR = {'atoms': None, 'talias': 't'}      # atoms in force for the case being processed (a variant may respell one)


def atoms():
    return CUR['atoms'] or ATOMS


MIRROR = {'=': '=', '>': '<', '<': '>', '>=': '<=', '<=': '>=', '!=': '!=', '<>': '<>'}


def render(w, flip=False, flip_model=False):
    """flip: atoms on TABLE columns are written constant-first with the mirrored operator (`2 < t.a` for `t.a > 2`)."""
    k = w['k']
    if k == 'atom':
        tab, col, op, c = atoms()[w['id']]
        cs = 'NULL' if c is None else '%d' % c
        q = CUR['talias'] if tab == 't' else tab           # the table's alias in this variant
        if (flip and tab == 't') or (flip_model and tab == 'm'):
            return '%s %s %s.%s' % (cs, MIRROR[op], q, col)
        return '%s.%s %s %s' % (q, col, op, cs)
    if k == 'not':
        return 'not (%s)' % render(w['a'], flip, flip_model)
    return '(%s %s %s)' % (render(w['a'], flip, flip_model), k, render(w['b'], flip, flip_model))


def match_atom(node, with_alias):
    """BinaryOperation column <op> constant -> atom id or None."""
    if type(node).__name__ != 'BinaryOperation' or len(node.args) != 2:
        return None
    a, b = node.args
    nop = str(node.op).lower()
    if type(a).__name__ == 'Constant' and type(b).__name__ == 'Identifier' and nop in MIRROR:
        a, b, nop = b, a, MIRROR[nop]        # constant-first spelling of the same comparison
    if type(a).__name__ != 'Identifier' or type(b).__name__ not in ('Constant', 'NullConstant'):
        return None
    parts = [str(p).lower() for p in a.parts]
    for i, (tab, col, op, c) in atoms().items():
        if parts[-1] == col and nop == op and b.value == c:
            if len(parts) > 1 and parts[-2] != (CUR['talias'] if tab == 't' else tab):
                continue
            return i
    return None


def conjuncts(node):
    if node is None:
        return []
    if type(node).__name__ == 'BinaryOperation' and str(node.op).lower() == 'and':
        return conjuncts(node.args[0]) + conjuncts(node.args[1])
    return [node]


def tree_of(node):
    k = type(node).__name__
    if node is None:
        return {'k': 'true'}
    if k == 'BinaryOperation':
        op = str(node.op).lower()
        if op in ('and', 'or'):
            return {'k': op, 'a': tree_of(node.args[0]), 'b': tree_of(node.args[1])}
        a, b = node.args
        if type(a).__name__ == 'Constant' and type(b).__name__ == 'Constant' and op == '=' and a.value == b.value:
            return {'k': 'true'}
        i = match_atom(node, True)
        if i is not None:
            return {'k': 'atom', 'id': i}
        raise ValueError('unknown condition %s' % node)
    if k == 'BetweenOperation':
        # the extra conjunct of the between-column-bound variants: it is no atom of W and can only stay in the outer filter
        return {'k': 'true'}
    if k == 'UnaryOperation' and str(node.op).lower() == 'not':
        return {'k': 'not', 'a': tree_of(node.args[0])}
    raise ValueError('unknown node %s' % k)


def _case(args):
    w, variant = args
    from mindsdb_sql import parse_sql
    from mindsdb_sql.planner import plan_query
    from mindsdb_sql.exceptions import PlanningException
    from .project import walk_objects
    CUR['atoms'] = dict(ATOMS)
    CUR['talias'] = 'pred' if variant == 'table-alias-is-model-name' else 't'
    if variant.startswith('null-model-argument'):
        CUR['atoms'][4] = ('m', 'z', '=', None)         # m.z = NULL : the model gets the argument z = NULL
    if variant.startswith('zero-model-argument'):
        CUR['atoms'][4] = ('m', 'z', '=', 0)
        CUR['atoms'][1] = ('t', 'b', '=', 0)
    sql = VARIANTS[variant].replace('{WFM}', render(w, True, True)).replace('{WF}', render(w, True)).replace('{W}', render(w))
    out = {'sql': sql, 'variant': variant}
    try:
        plan = plan_query(parse_sql(sql, 'mindsdb'), **plancorpus.catalog('legacy-dict-targets' if variant.startswith('legacy-catalog:') else 'dicts'))
    except (PlanningException, NotImplementedError) as e:
        out['status'] = 'refused'
        return out
    except Exception as e:   # noqa
        out['status'] = 'internal:' + type(e).__name__
        return out
    fetch_t = [s for s in plan.steps if type(s).__name__ == 'FetchDataframeStep' and str(s.integration).lower() == 'int1']
    applies = [s for s in plan.steps if type(s).__name__ in ('ApplyPredictorStep', 'ApplyPredictorRowStep')]
    qsteps = [s for s in plan.steps if type(s).__name__ == 'QueryStep']
    pushed, unknown = [], 0
    for f in fetch_t:
        for c in conjuncts(getattr(f.query, 'where', None)):
            i = match_atom(c, False)
            if i is None:
                if type(c).__name__ == 'BinaryOperation' and str(c.op).lower() == 'in':
                    continue      # semi-join restriction: judged below against the ON clauses
                unknown += 1
            else:
                pushed.append(i)
    # semi-join restrictions `col IN :Result(n)`: n must be a DISTINCT sub-select of col2 over the fetch of a table Y,
    # and the query must contain the ON equality  <this table>.col = Y.col2  (never a model column)
    on_eq = set()

    def collect_on(o, path):
        if type(o).__name__ == 'Join' and o.condition is not None:
            for c in conjuncts(o.condition):
                if type(c).__name__ == 'BinaryOperation' and str(c.op) == '=' and \
                        all(type(x).__name__ == 'Identifier' and len(x.parts) == 2 for x in c.args):
                    a_, b_ = [tuple(str(p).lower() for p in x.parts) for x in c.args]
                    on_eq.add((a_, b_))
                    on_eq.add((b_, a_))
    walk_objects(parse_sql(sql, 'mindsdb'), collect_on)
    alias_of_fetch = {}
    for s_ in plan.steps:
        if type(s_).__name__ == 'FetchDataframeStep' and getattr(s_, 'query', None) is not None:
            ft = getattr(s_.query, 'from_table', None)
            if type(ft).__name__ == 'Identifier':
                al = ft.alias.parts[-1] if ft.alias is not None else ft.parts[-1]
                alias_of_fetch[s_.step_num] = str(al).lower()
    for s_ in plan.steps:
        if type(s_).__name__ != 'FetchDataframeStep' or getattr(s_, 'query', None) is None:
            continue
        this = alias_of_fetch.get(s_.step_num)
        for c in conjuncts(getattr(s_.query, 'where', None)):
            if type(c).__name__ == 'BinaryOperation' and str(c.op).lower() == 'in' and type(c.args[1]).__name__ == 'Parameter':
                ok = False
                try:
                    sub = plan.steps[int(c.args[1].value.step_num)]
                    src = alias_of_fetch.get(int(sub.dataframe.step_num))
                    col2 = str(sub.query.targets[0].parts[-1]).lower()
                    col = str(c.args[0].parts[-1]).lower()
                    ok = ((this, col), (src, col2)) in on_eq
                except Exception:   # noqa
                    ok = False
                if not ok:
                    unknown += 1
    rowdict, other = [], 0
    for a in applies:
        for k_, v in (a.row_dict or {}).items():
            hit = [i for i, (tab, col, op, c) in atoms().items() if tab == 'm' and op == '=' and col == str(k_).lower() and c == v]
            if hit:
                rowdict.append(hit[0])
            else:
                other += 1
    try:
        outer = tree_of(qsteps[-1].query.where) if qsteps else {'k': 'true'}
    except ValueError as e:
        out['status'] = 'outer-filter-not-readable:%s' % e
        return out
    out['status'] = 'ok'
    out['x'] = {'w': w, 'pushed': pushed, 'unknownpush': unknown, 'rowdict': rowdict, 'rowdictother': other, 'outer': outer}
    out['n_apply'] = len(applies)
    out['kinds'] = [type(s).__name__ for s in plan.steps]
    if applies:
        a = applies[0]
        out['params'] = {str(k_): v for k_, v in (a.params or {}).items()}
        out['columns_map'] = {str(k_): str(v) for k_, v in (a.columns_map or {}).items()}
        out['namespace'] = str(a.namespace)
        out['predictor'] = [str(p) for p in a.predictor.parts]
        df = getattr(a, 'dataframe', None)
        out['dataframe'] = getattr(df, 'step_num', None)
        # the step the model is applied to must carry the table data (a fetch of int1, or a join of the tables)
        try:
            src = plan.steps[int(out['dataframe'])]
            out['dataframe_kind'] = type(src).__name__
        except Exception:   # noqa
            out['dataframe_kind'] = 'unresolvable'
    out['fetch_sql'] = [str(f.query) for f in fetch_t]
    return out


ON_ATOMS = {0: 't.a = u.a', 6: 'u.c = 1', 7: 'u.c > 2'}
ON_KIND = {'inner': 'join', 'left': 'left join', 'right': 'right join', 'full': 'full join'}
ON_TAILS = {'then-model': ' join mindsdb.pred as m', 'no-model': '', 'then-model-where': ' join mindsdb.pred as m where m.x = 5 and t.b = 1'}


def render_on(w):
    k = w['k']
    if k == 'atom':
        return ON_ATOMS[w['id']]
    if k == 'not':
        return 'not (%s)' % render_on(w['a'])
    return '(%s %s %s)' % (render_on(w['a']), k, render_on(w['b']))


def _on_case(args):
    kind, on, tail = args
    from mindsdb_sql import parse_sql
    from mindsdb_sql.planner import plan_query
    from mindsdb_sql.exceptions import PlanningException
    sql = 'select * from int1.t1 as t %s int2.t2 as u on %s%s' % (ON_KIND[kind], render_on(on), ON_TAILS[tail])
    out = {'sql': sql, 'variant': 'on-clause:%s:%s' % (kind, tail)}
    try:
        plan = plan_query(parse_sql(sql, 'mindsdb'), **plancorpus.catalog('dicts'))
    except (PlanningException, NotImplementedError):
        out['status'] = 'refused'
        return out
    except Exception as e:   # noqa
        out['status'] = 'internal:' + type(e).__name__
        return out
    pushed, unknown, semi = [], 0, False
    n_fetch_u = 0
    for s_ in plan.steps:
        if type(s_).__name__ != 'FetchDataframeStep' or str(s_.integration).lower() != 'int2':
            continue
        n_fetch_u += 1
        for c in conjuncts(getattr(s_.query, 'where', None)):
            nm = type(c).__name__
            if nm == 'BinaryOperation' and str(c.op).lower() == 'in' and type(c.args[1]).__name__ == 'Parameter':
                # the restriction must be on u's join column, fed by the DISTINCT values of t's join column
                ok = False
                try:
                    sub = plan.steps[int(c.args[1].value.step_num)]
                    src = plan.steps[int(sub.dataframe.step_num)]
                    ok = (str(c.args[0].parts[-1]).lower() == 'a' and str(sub.query.targets[0].parts[-1]).lower() == 'a'
                          and bool(sub.query.distinct) and str(src.integration).lower() == 'int1')
                except Exception:   # noqa
                    ok = False
                if ok:
                    semi = True
                else:
                    unknown += 1
                continue
            hit = None
            if nm == 'BinaryOperation' and len(c.args) == 2 and type(c.args[0]).__name__ == 'Identifier' and type(c.args[1]).__name__ == 'Constant':
                col, op, val = str(c.args[0].parts[-1]).lower(), str(c.op).lower(), c.args[1].value
                hit = 6 if (col, op, val) == ('c', '=', 1) else (7 if (col, op, val) == ('c', '>', 2) else None)
            if hit is None:
                unknown += 1
            else:
                pushed.append(hit)
    out['status'] = 'ok' if n_fetch_u == 1 else 'fetches-of-u:%d' % n_fetch_u
    out['x'] = {'on': on, 'kind': kind, 'pushed': pushed, 'semijoin': semi, 'unknownpush': unknown}
    out['fetch_sql'] = [str(s_.query) for s_ in plan.steps if type(s_).__name__ == 'FetchDataframeStep']
    out['kinds'] = [type(s_).__name__ for s_ in plan.steps]
    return out


def run(ctx):
    thorough = ctx.tier == 'thorough'
    # ---- ON clauses: every tree of depth <= 2 over the join equality and two comparisons of the joined table x 4 join kinds
    go = ctx.tlc('ModelJoinOnGen', name='modeljoin_on_gen')
    if go.violated or not go.ok:
        raise MachineryError('ModelJoinOnGen: %s %s' % (go.violated, go.errors[:2]))
    ons = [(v[1], v[2]) for v in find_prints(go.out, 'ON')]
    if len(ons) != go.distinct:
        raise MachineryError('ModelJoinOnGen: parsed %d of %d' % (len(ons), go.distinct))
    ons.sort(key=lambda t: json.dumps(t, sort_keys=True))
    on_work = [(k_, on_, tl_) for i_, (k_, on_) in enumerate(ons) for tl_ in (list(ON_TAILS) if thorough else [list(ON_TAILS)[i_ % 3]])]
    on_res = pmap(_on_case, on_work, chunksize=32)
    g = ctx.tlc('ModelJoinGen', name='modeljoin_gen')
    if g.violated or not g.ok:
        raise MachineryError('ModelJoinGen: %s %s' % (g.violated, g.errors[:2]))
    trees = [v[1] for v in find_prints(g.out, 'W')]
    if len(trees) != g.distinct:
        raise MachineryError('ModelJoinGen: parsed %d of %d' % (len(trees), g.distinct))
    trees.sort(key=lambda t: json.dumps(t, sort_keys=True))
    work = []
    vs = list(VARIANTS)
    for i, w in enumerate(trees):
        for v in (vs if thorough else [vs[0], vs[1 + i % (len(vs) - 1)]]):
            work.append((w, v))
    res = pmap(_case, work, chunksize=32)
    traces, meta = [], []
    status = {}
    for (w, v), r in zip(work, res):
        st = r['status'].split(':')[0]
        status[st] = status.get(st, 0) + 1
        if st == 'internal':
            ctx.violation('planning-internal-error:%s' % r['status'], 'planning a table-model join failed internally',
                          {'sql': r['sql']}, pin=(r['sql'], r['status']))
        elif st == 'outer-filter-not-readable':
            ctx.violation('outer-filter-not-readable', 'the outer filter contains a condition that is not in the query: %s'
                          % r['status'], {'sql': r['sql']}, pin=(r['sql'], r['status']))
        elif st == 'ok':
            traces.append(r['x'])
            meta.append(r)
    on_status = {}
    for r in on_res:
        st = r['status'].split(':')[0]
        on_status[st] = on_status.get(st, 0) + 1
        if st == 'internal':
            ctx.violation('planning-internal-error:%s' % r['status'], 'planning a join with a composite ON clause failed internally',
                          {'sql': r['sql']}, pin=(r['sql'], r['status']))
        elif st == 'ok':
            traces.append(r['x'])
            meta.append(r)
    ctx.cov['on_clause_cases'] = {'trees_x_kinds': len(ons), 'planned': on_status}
    if not on_status.get('ok'):
        raise MachineryError('no join with a composite ON clause could be planned')
    path = ctx.work / 'mjtraces.json'
    dump_json(path, traces)
    tr = ctx.tlc('ModelJoinTrace', env={'VERIF_TRACES': path}, name='modeljoin_trace', timeout=3000)
    if not tr.ok:
        raise MachineryError('ModelJoinTrace failed: %s' % tr.errors[:3])
    ver = {x[0]: x[1] for x in tr.prints('ACC')}
    if len(ver) != len(traces):
        raise MachineryError('ModelJoinTrace judged %d of %d' % (len(ver), len(traces)))
    for i, r in enumerate(meta):
        key = r['sql']
        for flag in ver[i + 1]:
            ctx.violation('%s:%s' % (flag, r['variant']), 'table-model join: %s' % flag,
                          {'sql': r['sql'], 'fetch': r.get('fetch_sql'), 'facts': r['x'], 'steps': r['kinds']}, pin=(key, flag))
        if r['variant'].startswith('on-clause:'):
            continue
        v = r['variant']
        if v.startswith('on-clause:'):
            continue
        if r['n_apply'] != 1:
            ctx.violation('apply-steps:%d:%s' % (r['n_apply'], v), 'not exactly one apply-predictor step per model reference',
                          {'sql': r['sql'], 'steps': r['kinds']}, pin=(key, r['n_apply']))
            continue
        if r.get('dataframe_kind') not in ('FetchDataframeStep', 'JoinStep', 'SubSelectStep', 'QueryStep'):
            ctx.violation('model-input:%s' % v, 'the model is not applied to the result of the data it is joined to',
                          {'sql': r['sql'], 'steps': r['kinds'], 'dataframe': r.get('dataframe')}, pin=(key, r.get('dataframe_kind')))
        if v in ('using', 'using-dotted-keys', 'legacy-catalog:using'):
            want = {'opt1': 1, 'opt2': 'x', 'opt3': 2}
            if v == 'using-dotted-keys':
                want.update({'engine.mode': 'fast', 'a.b.c.d': 2, 'm.m': 3})
            got = {k_.lower(): v_ for k_, v_ in (r.get('params') or {}).items()}
            if got != want:
                ctx.violation('using-options:%s' % v, 'USING options do not reach the model unchanged (apart from key case)',
                              {'sql': r['sql'], 'params': r.get('params')}, pin=(key, repr(got)))
        if v.startswith('on-columns-map-'):
            cm = {k_.lower(): v_.lower() for k_, v_ in (r.get('columns_map') or {}).items()}
            want_cm = {'on-columns-map-inequality': {}, 'on-columns-map-negated': {}, 'on-columns-map-and-inequality': {'k': 't.a'},
                       'on-columns-map-two-equalities': {'k': 't.a', 'j': 't.b'}, 'on-columns-map-disjunction': {}}[v]
            if cm != want_cm:
                ctx.violation('columns-map:%s' % v, 'the column mapping is not exactly the top-level equalities between a model column and a '
                              'table column of the ON clause', {'sql': r['sql'], 'columns_map': r.get('columns_map'), 'expected': want_cm},
                              pin=(key, repr(cm)))
        if v == 'on-columns-map':
            cm = {k_.lower(): v_.lower() for k_, v_ in (r.get('columns_map') or {}).items()}
            if cm != {'k': 't.a'} and cm != {'k': 't1.a'} and cm != {'k': 'a'}:
                ctx.violation('columns-map:%s' % v, 'the ON equality between a model column and a table column is not the column map',
                              {'sql': r['sql'], 'columns_map': r.get('columns_map')}, pin=(key, repr(cm)))
        if v == 'versioned-project-model':
            if r.get('namespace', '').lower() != 'proj' or [p.lower() for p in r.get('predictor', [])][-2:] != ['pred2', '4']:
                ctx.violation('model-identity:%s' % v, 'the model is not applied in its project with its version',
                              {'sql': r['sql'], 'namespace': r.get('namespace'), 'predictor': r.get('predictor')},
                              pin=(key, repr(r.get('predictor'))))
    ctx.cov['traces_validated_against_impl'] = len(traces)
    ctx.cov['evaluations'] = len(work)
    ctx.cov['where_trees'] = len(trees)
    ctx.cov['planning_status'] = status
    if meta:
        ctx.sample({'sql': meta[0]['sql'], 'facts': meta[0]['x'], 'fetch': meta[0].get('fetch_sql')})
        ctx.sample({'sql': meta[-1]['sql'], 'facts': meta[-1]['x'], 'fetch': meta[-1].get('fetch_sql')})
    ctx.assumptions += ['atoms: t.b = 1, t.a > 2, m.x = 5, m.z = 7, m.y > 3; WHERE trees of depth <= 2 over distinct atoms',
                        'QueryPlanner.plan_predictor (split_filters) has no caller in the tree and is not exercised']
    return ctx.finish(exhaustive=thorough)


def replay(ctx, path):
    rec = json.load(open(path))['replay']
    print(json.dumps(rec, indent=1)[:3000])
    return 0
