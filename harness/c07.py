"""C07 -- constants render as inert, exact literals in every output path.

spec   : Lexeme.tla scanners for the library's own rules (to_string), MySQL, and the standard-SQL targets.
cases  : every string over the interesting character classes up to length 3 (thorough 4) emitted by LexemeMC,
         plus integers, floats, booleans, NULL, dates and datetimes; five positions; six output paths.
judge  : the rendered statement must be the statement rendered for the benign value 'zqz' with exactly that one
         literal exchanged (same structure whatever the data), and the exchanged literal must denote the value
         under the TARGET's scanner, ending exactly at its last character (TLC, LexemeTrace).  sqlite literals are
         additionally read back by executing SELECT <literal>.
"""
import datetime as dt
import json
import sqlite3

from .common import MachineryError, dump_json
from .corpus import pmap
from .tlaparse import find_prints

PATHS = ['to_string', 'mysql', 'postgresql', 'sqlite', 'mssql', 'oracle']
STYLE = {'to_string': 'lib_sq', 'mysql': 'mysql', 'postgresql': 'std', 'sqlite': 'std', 'mssql': 'std', 'oracle': 'std'}
POSITIONS = ['select', 'where', 'inlist', 'insert', 'update', 'neg', 'sub', 'inlist-long', 'inlist-150', 'inlist-1100', 'setop-subselect', 'insert-from-setop',
             # typed surroundings: a cast target type, list / operator siblings of another type (a renderer that infers
             # the literal's type from its context prints it through that type)
             'cast-int', 'cast-float', 'cast-char', 'inlist-after-int', 'inlist-after-float', 'inlist-before-int',
             'plus-after-int', 'compare-with-int-function', 'between-ints']
# other ways of naming the same targets (the alias, a dialect class): the five basic positions
ALT_PATHS = ['postgres', 'class:mysql', 'class:postgresql', 'class:sqlite', 'class:mssql', 'class:oracle']
ALT_POSITIONS = ['select', 'where', 'inlist', 'insert', 'update']
STYLE.update({'postgres': 'std', 'class:mysql': 'mysql', 'class:postgresql': 'std', 'class:sqlite': 'std', 'class:mssql': 'std', 'class:oracle': 'std'})
BENIGN = 'zqz'
TYPED = [0, 7, -3, 12345678901234567890, 1.5, -0.25, 1e-7, 2.75, -0.5, 100000000000000000000.5, True, False, None,
         dt.date(2020, 2, 29), dt.datetime(2011, 1, 1, 10, 20, 30), dt.datetime(2011, 1, 1, 10, 20, 30, 123456)]


def s_of(codes):
    return ''.join(chr(c) for c in codes)


def build(pos, value):
    from mindsdb_sql.parser.ast import (Constant, NullConstant, Identifier, Select, BinaryOperation, Tuple, Insert,
                                        Update, UnaryOperation, Union, Star)
    c = NullConstant() if value is None else Constant(value)
    if pos == 'select':
        c.alias = Identifier('c1')      # otherwise the renderer derives the column label from the value
        return Select(targets=[c])
    if pos == 'where':
        return Select(targets=[Identifier('a')], from_table=Identifier('t'),
                      where=BinaryOperation('=', args=[Identifier('c'), c]))
    if pos == 'inlist':
        return Select(targets=[Identifier('a')], from_table=Identifier('t'),
                      where=BinaryOperation('in', args=[Identifier('c'), Tuple(items=[Constant('x'), c])]))
    if pos == 'insert':
        return Insert(table=Identifier('t'), columns=[Identifier('c')], values=[[c]])
    if pos == 'update':
        return Update(table=Identifier('t'), update_columns={'c': c},
                      where=BinaryOperation('=', args=[Identifier('d'), Constant(1)]))
    # a long list of constants (renderers like to special-case them); a constant inside a set operation used as a sub-select
    if pos in ('inlist-long', 'inlist-150', 'inlist-1100'):
        half = {'inlist-long': 30, 'inlist-150': 75, 'inlist-1100': 550}[pos]
        items = [Constant(i) for i in range(half)] + [c] + [Constant('v%d' % i) for i in range(half)]
        return Select(targets=[Identifier('a')], from_table=Identifier('t'),
                      where=BinaryOperation('in', args=[Identifier('c'), Tuple(items=items)]))
    if pos in ('setop-subselect', 'insert-from-setop'):
        c.alias = Identifier('c1')
        u = Union(left=Select(targets=[c]), right=Select(targets=[Constant(1, alias=Identifier('c1'))]), unique=False)
        u.alias = Identifier('u')
        u.parentheses = True
        sel = Select(targets=[Star()], from_table=u)
        if pos == 'setop-subselect':
            return sel
        return Insert(table=Identifier('t'), columns=[Identifier('c')], from_select=sel)
    # a constant next to an operator sign: the literal must not fuse with it into another token (--, /*, */)
    if pos == 'neg':
        return Select(targets=[Identifier('a')], from_table=Identifier('t'),
                      where=BinaryOperation('=', args=[Identifier('c'), UnaryOperation('-', args=[c])]))
    if pos == 'sub':
        return Select(targets=[Identifier('a')], from_table=Identifier('t'),
                      where=BinaryOperation('=', args=[Identifier('c'), BinaryOperation('-', args=[Identifier('d'), c])]))
    if pos.startswith('cast-'):
        from mindsdb_sql.parser.ast import TypeCast
        return Select(targets=[Identifier('a')], from_table=Identifier('t'),
                      where=BinaryOperation('=', args=[Identifier('c'), TypeCast(type_name={'int': 'INT', 'float': 'FLOAT', 'char': 'CHAR'}[pos[5:]], arg=c)]))
    if pos in ('inlist-after-int', 'inlist-after-float', 'inlist-before-int'):
        sib = Constant(0.5) if 'float' in pos else Constant(1)
        items = [c, sib, Constant(2)] if 'before' in pos else [sib, c, Constant(2)]
        return Select(targets=[Identifier('a')], from_table=Identifier('t'),
                      where=BinaryOperation('not in' if 'before' in pos else 'in', args=[Identifier('c'), Tuple(items=items)]))
    if pos == 'plus-after-int':
        return Select(targets=[Identifier('a')], from_table=Identifier('t'),
                      where=BinaryOperation('=', args=[Identifier('c'), BinaryOperation('+', args=[Constant(1), c])]))
    if pos == 'compare-with-int-function':
        from mindsdb_sql.parser.ast import Function
        return Select(targets=[Identifier('a')], from_table=Identifier('t'),
                      where=BinaryOperation('>', args=[Function('length', args=[Identifier('c')]), c]))
    if pos == 'between-ints':
        from mindsdb_sql.parser.ast import BetweenOperation
        return Select(targets=[Identifier('a')], from_table=Identifier('t'),
                      where=BetweenOperation(args=[Identifier('c'), Constant(1), c]))
    if pos == 'div':
        return Select(targets=[Identifier('a')], from_table=Identifier('t'),
                      where=BinaryOperation('=', args=[Identifier('c'), BinaryOperation('/', args=[Identifier('d'), c])]))
    raise ValueError(pos)


def render(path, tree):
    if path == 'to_string':
        return tree.to_string()
    from mindsdb_sql.render.sqlalchemy_render import SqlalchemyRender
    if path.startswith('class:'):       # the renderer also takes a sqlalchemy dialect class instead of a name
        import importlib
        return SqlalchemyRender(importlib.import_module('sqlalchemy.dialects.' + path[6:]).dialect).get_string(tree, with_failback=False)
    return SqlalchemyRender(path).get_string(tree, with_failback=False)


_skel = {}


def skeleton(path, pos):
    k = (path, pos)
    if k not in _skel:
        s = render(path, build(pos, BENIGN))
        lit = "'%s'" % BENIGN
        if s.count(lit) != 1:
            _skel[k] = None
        else:
            i = s.index(lit)
            _skel[k] = (s[:i], s[i + len(lit):])
    return _skel[k]


def _case(value_spec):
    kind, payload = value_spec
    value = s_of(payload) if kind == 'str' else payload
    out = []
    import warnings
    warnings.filterwarnings('ignore', message='.*rendering literal NULL.*')
    for path in PATHS + ALT_PATHS:
        for pos in (POSITIONS if path in PATHS else ALT_POSITIONS):
            try:
                sk = skeleton(path, pos)
                if sk is None:
                    out.append((path, pos, 'no-skeleton', None))
                    continue
                s = render(path, build(pos, value))
            except Exception as e:   # noqa
                from sqlalchemy.exc import SQLAlchemyError
                if isinstance(e, (SQLAlchemyError, NotImplementedError)):
                    out.append((path, pos, 'no-skeleton', None))    # documented refusal (C17's concern), not judged
                else:
                    out.append((path, pos, 'exc:%s' % type(e).__name__, str(e)[:200]))
                continue
            pre, suf = sk
            if not (s.startswith(pre) and s.endswith(suf) and len(s) >= len(pre) + len(suf)):
                out.append((path, pos, 'structure-changed', s))
                continue
            lit = s[len(pre):len(s) - len(suf)] if suf else s[len(pre):]
            if fuses(pre, lit):
                out.append((path, pos, 'fuses-with-operator', s))
                continue
            out.append((path, pos, 'lit', lit))
    return out


def fuses(pre, lit):
    """The literal, written directly after the statement text before it, forms a comment marker with it."""
    a, b = pre[-1:], lit.lstrip()[:1] if lit[:1] not in ' \t\n' else ''
    return (a + b) in ('--', '/*', '*/') and lit[:1] not in ' \t\n'


def judge_typed(value, lit, path):
    """Python oracle for non-string constants: does the literal read back as the value?"""
    t = lit.strip()
    if t.startswith('(') and t.endswith(')'):
        t = t[1:-1].strip()
    try:
        if value is None:
            return t.upper() == 'NULL'
        if isinstance(value, bool):
            return t.lower() in (('true', '1') if value else ('false', '0'))
        if isinstance(value, (int, float)) and path == 'to_string':
            # the target of the tree's own string is the library's lexer: the literal must be ONE number token (after an
            # optional sign) of that lexer -- it has no exponent notation
            from .corpus import lex_spans
            sp = lex_spans('mindsdb', t)
            if sp is None or [x[0] for x in sp] not in (['INTEGER'], ['FLOAT'], ['MINUS', 'INTEGER'], ['MINUS', 'FLOAT']):
                return False
        if isinstance(value, int):
            return int(t) == value
        if isinstance(value, float):
            return float(t) == value
        if isinstance(value, dt.datetime):
            return t.startswith("'") and t.endswith("'") and dt.datetime.fromisoformat(t[1:-1]) == value
        if isinstance(value, dt.date):
            return t.startswith("'") and t.endswith("'") and dt.date.fromisoformat(t[1:-1]) == value
    except Exception:   # noqa
        return False
    return False


def run(ctx):
    thorough = ctx.tier == 'thorough'
    r = ctx.tlc('LexemeMC', cfg='LexemeMC4.cfg' if thorough else 'LexemeMC3.cfg', name='lexeme_mc', timeout=3000)
    if r.violated or not r.ok:
        raise MachineryError('LexemeMC: the reference is not self-consistent: %s %s' % (r.violated, r.errors[:2]))
    vals = [v[1] for v in find_prints(r.out, 'VAL')]
    if not vals:
        raise MachineryError('LexemeMC emitted no values')
    specs = [('str', v) for v in vals] + [('typed', v) for v in TYPED]
    res = pmap(_case, specs, chunksize=64)
    traces, meta = [], []
    n_eval = 0
    con = sqlite3.connect(':memory:')
    for (kind, payload), rs in zip(specs, res):
        value = s_of(payload) if kind == 'str' else payload
        for path, pos, status, lit in rs:
            n_eval += 1
            key = '%r|%s|%s' % (value, path, pos)
            if status == 'no-skeleton':
                continue
            if status.startswith('exc:'):
                ctx.violation('render-raises:%s:%s' % (path, status[4:]), 'rendering a constant raised: %s' % lit,
                              {'value': repr(value), 'path': path, 'position': pos}, pin=(key, status))
                continue
            if status == 'fuses-with-operator':
                ctx.violation('literal-fuses-with-operator:%s' % path,
                              'the literal is written directly after an operator sign and forms a comment marker with it',
                              {'value': repr(value), 'path': path, 'position': pos, 'rendered': lit}, pin=(key, lit))
                continue
            if status == 'structure-changed':
                ctx.violation('structure-changed:%s' % path,
                              'the rendered statement is not the benign statement with one literal exchanged: the '
                              'constant changed the statement structure',
                              {'value': repr(value), 'path': path, 'position': pos, 'rendered': lit}, pin=(key, lit))
                continue
            if kind == 'typed':
                if not judge_typed(value, lit, path):
                    ctx.violation('typed-literal:%s:%s' % (path, type(value).__name__),
                                  'the literal does not read back as the constant value',
                                  {'value': repr(value), 'path': path, 'position': pos, 'literal': lit}, pin=(key, lit))
                continue
            traces.append({'kind': 'str', 'style': STYLE[path], 'text': [ord(ch) for ch in lit], 'value': payload, 'parts': []})
            meta.append((value, path, pos, lit, key))
            if path == 'sqlite' and pos == 'select' and '\x00' not in lit:
                try:
                    got = con.execute('SELECT ' + lit).fetchone()[0]
                    if got != value:
                        ctx.violation('sqlite-readback', 'sqlite3 reads the rendered literal back as a different value',
                                      {'value': value, 'literal': lit, 'got': got}, pin=(key, got))
                except sqlite3.Error as e:
                    ctx.violation('sqlite-readback', 'sqlite3 cannot read the rendered literal: %s' % e,
                                  {'value': value, 'literal': lit}, pin=(key, 'error'))
    ver = {}
    TB = 150000        # validated in batches (one JSON document of all renderings is too large in the thorough tier)
    for b0 in range(0, len(traces), TB):
        path_ = ctx.work / ('c07traces_%d.json' % (b0 // TB))
        dump_json(path_, traces[b0:b0 + TB])
        tr = ctx.tlc('LexemeTrace', env={'VERIF_TRACES': path_}, name='lexeme_trace' + ('_%d' % (b0 // TB) if b0 else ''), timeout=3000)
        if not tr.ok:
            raise MachineryError('LexemeTrace failed: %s' % tr.errors[:3])
        for x in tr.prints('ACC'):
            ver[b0 + x[0]] = x[1]
        path_.unlink()
    if len(ver) != len(traces):
        raise MachineryError('LexemeTrace judged %d of %d' % (len(ver), len(traces)))
    for i, (value, path, pos, lit, key) in enumerate(meta):
        v = ver[i + 1]
        if v != 'ok':
            ctx.violation('literal:%s' % path,
                          'the rendered literal does not denote the constant under the target\'s lexical rules (%s)' % v,
                          {'value': value, 'path': path, 'position': pos, 'literal': lit, 'verdict': v},
                          pin=(key, [lit, v]))
    ctx.cov['traces_validated_against_impl'] = len(traces)
    ctx.cov['evaluations'] = n_eval
    ctx.cov['string_values'] = len(vals)
    ctx.cov['typed_values'] = len(TYPED)
    if meta:
        ctx.sample({'value': meta[-1][0], 'path': meta[-1][1], 'position': meta[-1][2], 'literal': meta[-1][3]})
    ctx.sample({'skeleton': {'%s/%s' % k: v for k, v in list(_skel.items())[:3]}})
    ctx.assumptions += ['string values range over 11 character classes up to the stated length',
                        'mssql/oracle/postgresql have no engine offline: judged by the standard-SQL scanner only',
                        'typed constants are judged by a Python reader of the literal text']
    return ctx.finish(exhaustive=True)


def replay(ctx, path):
    rec = json.load(open(path))['replay']
    print(json.dumps(rec, indent=1, ensure_ascii=False))
    return 0
