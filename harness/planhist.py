"""Planner call histories shared by C09, C10 and C20.

A history is a sequence of queries planned (a) on ONE QueryPlanner object (`from_query(query)` is the API the prepared
statement planner itself uses) or (b) by fresh planners that are handed the SAME catalog objects (what a server does
with its catalog).  Every plan of a history is returned; the checks judge each of them with their own obligations and
C20 additionally compares it with the plan of the same query planned alone with a fresh copy of the catalog.
"""
import copy

# (first queries ..., judged last query) -- each earlier query leaves state that must not reach the later ones
HISTORIES = [
    ['with t2 as (select * from int2.t5) select * from t2 join int1.t1 as a on t2.a = a.a',
     'select * from t2 join int1.t1 as a on t2.a = a.a'],
    ['with c as (select * from int1.t1 where a in (select a from int2.t2)) select * from c join int2.t5 as b on c.a = b.a',
     'with c as (select * from int2.t2) select * from c join int1.t1 as b on c.a = b.a'],
    ['with t1 as (select * from int2.t5) select * from t1', 'select * from int1.t1 where a in (select a from t1)'],
    ['select * from int1.t1 as t join mindsdb.pred.3 as m', 'select * from int1.t1 as t join mindsdb.pred as m'],
    ['select * from mindsdb.pred.3 where a = 1', 'select * from mindsdb.pred where a = 1'],
    ['select * from int1.t1 as t join proj.pred2.3 as m', 'select * from int1.t1 as t join proj.pred2 as m',
     'select * from int1.t1 as t join proj.pred2.4 as m'],
    ['select * from mindsdb.pred where a = (select b from mindsdb.pred.3 where a = 1)', 'select * from mindsdb.pred where a = 2'],
    ['select * from int1.t1 as t join mindsdb.pred as m join int2.t2 as x on x.a = t.a using partition_size=2',
     'select * from int1.t1 as t join int2.t2 as x on x.a = t.a'],
    ['select * from int1.nosuch join', 'select * from int1.t1 join int2.t2 on t1.a = t2.a'],
    ['select * from int1.t1 where a in (select a from int2.t2)', 'select * from int2.t2 where a in (select a from int1.t1)'],
    ['select * from INT1.t1 join Int2.t2 on t1.a = t2.a', 'select * from int1.t1 join int2.t2 on t1.a = t2.a'],
    ['insert into int1.t9 (a) select a from int2.t2', 'select a from int2.t2 union select a from int1.t1'],
    # the same sub-select text in consecutive statements, at different positions of their plans
    ['select * from int1.t1 as a join int2.t5 as b on a.a = b.a where a.b in (select c from int2.t2 where c > 1)',
     'select * from int1.t3 where b in (select c from int2.t2 where c > 1)'],
    ['select * from int1.t3 where b in (select c from int2.t2 where c > 1)',
     'select * from int1.t1 where a = (select max(c) from int2.t2) and b in (select c from int2.t2 where c > 1)',
     'select * from int1.t3 where b in (select c from int2.t2 where c > 1)'],
    ['select * from int1.t1 where a = (select max(c) from int2.t2)', 'delete from int1.t1 where a = (select max(c) from int2.t2)'],
]


def run_history(sqls, kw, mode):
    """-> [(sql, status, plan-or-None)] ; mode 'planner' (one planner object) or 'catalog' (shared catalog objects)."""
    from mindsdb_sql import parse_sql
    from mindsdb_sql.planner import QueryPlanner
    from mindsdb_sql.exceptions import PlanningException
    out = []
    planner = None
    for sql in sqls:
        try:
            q = parse_sql(sql, 'mindsdb')
        except Exception:   # noqa
            out.append((sql, 'parse-error', None))
            continue
        try:
            if mode == 'planner':
                if planner is None:
                    planner = QueryPlanner(**kw)
                plan = planner.from_query(q)
            else:
                plan = QueryPlanner(q, **kw).from_query()
            out.append((sql, 'plan', plan))
        except (PlanningException, NotImplementedError) as e:
            out.append((sql, type(e).__name__, None))
        except Exception as e:   # noqa
            out.append((sql, 'internal:%s' % type(e).__name__, None))
    return out


def fresh(sql, kw):
    return run_history([sql], copy.deepcopy(kw), 'catalog')[0]


def histories(rng=None, extra=0, pool=()):
    hs = [list(h) for h in HISTORIES]
    pool = list(pool)
    if rng is not None and pool:
        for _ in range(extra):
            hs.append([rng.choice(pool), rng.choice(pool)])
    return hs
