"""C05 -- a statement is accepted only if its whole token stream is one grammar sentence.

design half : SlyMC (SlyDriver on toy grammars, all inputs, three callback shapes) -- AcceptSound,
              NoSilentDrop, NoProgressAfterError, Terminates; hazards found where expected.
binding     : every real-sly run on the toy grammars is a SlyDriver behaviour (all branches).
conformance : every parse_sql run over the corpus (test statements, token-level mutants, garbage
              prefix/suffix/infix, concatenations) x 3 dialects is validated by SlyTrace against the
              real tables; the table-free derivation monitors decide the property for accepted runs.
"""
import random

from . import slycheck
from .common import MachineryError
from .corpus import DIALECTS, accepted, mutations


def build_cases(ctx, per_dialect_stmts, muts_per_stmt):
    rng = random.Random(ctx.seed + 5)
    cases = []
    for d in DIALECTS:
        acc = accepted(d)
        for s in acc:
            cases.append((s, d, 'asis'))
        pick = list(acc)
        rng.shuffle(pick)
        for s in pick[:per_dialect_stmts]:
            for kind, m in mutations(d, s, rng, limit=muts_per_stmt):
                cases.append((m, d, kind))
    return cases


def _cmt(args):
    """Token types of the text as lexed by the dialect lexer vs. of the text with comments removed by the reference rule."""
    sql, d = args
    import re
    from .corpus import lex_spans, ref_strip_comments
    if '/*' not in sql and '--' not in sql:
        return None
    text = re.sub(r'[\s;]+$', '', sql)
    a = lex_spans(d, text)
    b = lex_spans(d, ref_strip_comments(text))
    if a is None or b is None:
        return None if (a is None) == (b is None) else {'lib': a is not None, 'ref': b is not None}
    ta, tb = [x[0] for x in a], [x[0] for x in b]
    return None if ta == tb else {'lib': ta[:40], 'ref': tb[:40]}


def judge(ctx, cases, results, verdicts_by_dialect):
    """Map TLC verdicts to C05 violations."""
    for (sql, d, kind), res, verdict in zip(cases, results, verdicts_by_dialect):
        tr = res['trace']
        accepted_run = tr['outcome'] == 'accepted' or res['final'] == 'tree'
        if verdict is not None and 'DRIFT' in verdict[1]:
            ctx.cov['drift'] = ctx.cov.get('drift', 0) + 1
            if ctx.cov['drift'] <= 3:
                ctx.note('run is not a SlyDriver behaviour under the tables (judged by the table-free Derivation '
                         'replay instead): %r [%s]' % (sql[:80], d))
            verdict = (verdict[0], [f for f in verdict[1] if f != 'DRIFT'], [])
        if verdict is None:
            if accepted_run:
                ctx.violation('accepted-not-a-derivation:%s' % d,
                              'parse_sql accepted the input but the recorded driver run is not a derivation of the '
                              'independently lexed token stream (SlyTrace rejected the trace)',
                              {'sql': sql, 'dialect': d, 'kind': kind, 'input_types': tr['input'],
                               'events': [e['e'] + ':' + e['ty'] for e in tr['events']][-30:]})
            else:
                ctx.cov['drift'] = ctx.cov.get('drift', 0) + 1
                if ctx.cov['drift'] <= 3:
                    ctx.note('trace of a rejected input is not a SlyDriver behaviour (drift): %r [%s]' % (sql[:80], d))
            continue
        phase, flags = verdict[0], verdict[1]
        bad = [f for f in flags if f in ('ShiftAfterError', 'AcceptAfterError', 'ShiftNotNextInputToken',
                                         'ReduceNotOnStackTop', 'AcceptNotWholeInput', 'NoSilentDrop',
                                         'ShiftedIsPrefix')]
        if accepted_run and (bad or flags):
            ctx.violation('accepted-with-%s:%s' % ('+'.join(sorted(flags)), d),
                          'input accepted although the driver run violates %s' % sorted(flags),
                          {'sql': sql, 'dialect': d, 'kind': kind, 'flags': flags})
        elif bad and ('ShiftAfterError' in bad or 'AcceptAfterError' in bad):
            ctx.violation('progress-after-error:%s' % d,
                          'after the first syntax error was reported the driver shifted further input tokens '
                          '(panic-mode recovery resynchronised): %s' % sorted(flags),
                          {'sql': sql, 'dialect': d, 'kind': kind, 'flags': flags})
        if res['final'] == 'tree' and tr['outcome'] != 'accepted':
            ctx.violation('tree-without-accept:%s' % d, 'parse_sql returned a tree but the first driver run did not accept',
                          {'sql': sql, 'dialect': d, 'kind': kind, 'driver_outcome': tr['outcome']})


def run(ctx):
    thorough = ctx.tier == 'thorough'
    maxlen = 5 if thorough else 4
    design = slycheck.toy_design(ctx, maxlen)
    ctx.cov['design_runs'] = design
    ctx.cov['toy_binding'] = slycheck.toy_traces(ctx, maxlen)

    # static obligations on the three dialect grammars
    for d in DIALECTS:
        tab = slycheck.dialect_tables(ctx, d)
        path = ctx.work / ('tables_%s.json' % d)
        from .common import dump_json
        dump_json(path, tab)
        r = ctx.tlc('GrammarStatic', workers=1, env={'VERIF_TABLES': path}, name='static_' + d, expect_violation=True)
        for inv in r.violated:
            ctx.violation('grammar-static:%s:%s' % (inv, d), 'the %s grammar violates the static obligation %s' % (d, inv),
                          {'dialect': d, 'obligation': inv})
        if not r.ok and not r.violated:
            raise MachineryError('GrammarStatic failed for %s: %s' % (d, r.errors[:3]))

    cases = build_cases(ctx, 100000 if thorough else 250, 40 if thorough else 10)
    # what may follow a complete statement: every tail of up to 4 (5) units over ; / block comment / line comment / token / line
    # break, enumerated by TLC from TailGen.tla together with the contract's answer (may such a text be accepted at all?)
    from .tlaparse import find_prints
    tg = ctx.tlc('TailGen', cfg='TailGen5.cfg' if thorough else 'TailGen4.cfg', name='tailgen')
    if tg.violated or not tg.ok:
        raise MachineryError('TailGen: %s %s' % (tg.violated, tg.errors[:2]))
    tails = [(v[1], v[2]) for v in find_prints(tg.out, 'TAIL')]
    if len(tails) != tg.distinct:
        raise MachineryError('TailGen: parsed %d of %d tails' % (len(tails), tg.distinct))
    tail_expect = {}
    toks_ = ['from', 'select 2', ')', 'x', 'drop table t', '(']
    for ti, (units, may) in enumerate(sorted(tails)):
        k_ = 0
        txt = ''
        for u in units:
            if u == 'tok':
                piece = toks_[(ti + k_) % len(toks_)]
                k_ += 1
            else:
                piece = {'semi': ';', 'block': '/* c%d */' % k_, 'line': '-- c\n', 'nl': '\n'}[u]
            txt += (' ' if txt and not txt.endswith('\n') else '') + piece
        for d in DIALECTS:
            for base in (('select 1', 'select a from t where b = 2') if ti % 2 else ('select a from t where b = 2', 'show tables')):
                sql_ = base + (' ' if ti % 3 else '') + txt
                cases.append((sql_, d, 'statement-tail'))
                tail_expect[(sql_, d)] = may
    ctx.cov['statement_tails'] = {'tails': len(tails), 'verdicts': {k_: sum(1 for _, m in tails if m == k_) for k_ in ('same', 'reject', 'free')}, 'cases': len(tail_expect)}
    # comments: the token stream the parser sees must be the text minus its comments (reference rule, independent of the
    # lexers' comment patterns) -- a lexer that drops more than the comment hides tokens from every later check
    from .corpus import pmap
    n_cmt = 0
    for (sql, d, kind), diff in zip(cases, pmap(_cmt, [(s, d) for s, d, _ in cases], chunksize=64)):
        if '/*' in sql or '--' in sql:
            n_cmt += 1
        if diff:
            ctx.violation('tokens-lost-with-comment:%s' % d, 'the lexer does not produce the tokens of the text with its comments removed',
                          {'sql': sql, 'dialect': d, 'kind': kind, 'tokens': diff})
    ctx.cov['comment_cases'] = n_cmt
    results = slycheck.trace_corpus([(s, d) for s, d, _ in cases])
    n_acc = 0
    verdicts = [None] * len(cases)
    for d in DIALECTS:
        idx = [i for i, c in enumerate(cases) if c[1] == d]
        traces = [results[i]['trace'] for i in idx]
        v = slycheck.validate_traces(ctx, slycheck.dialect_tables(ctx, d), traces, 'trace_' + d)
        for i, vv in zip(idx, v):
            verdicts[i] = vv
    judge(ctx, cases, results, verdicts)
    n_tail_acc = 0
    for (sql, d, kind), res in zip(cases, results):
        if kind == 'statement-tail' and res['final'] == 'tree':
            n_tail_acc += 1
            if tail_expect[(sql, d)] == 'reject':
                ctx.violation('accepted-with-a-tail:%s' % d, 'a statement followed by a semicolon and further tokens (or by a semicolon that '
                              'a comment shields from the strip) is accepted: something of the input was dropped',
                              {'sql': sql, 'dialect': d, 'kind': kind})
    ctx.cov['statement_tails']['accepted'] = n_tail_acc
    # "same": the text is the statement itself, so it must be accepted exactly as the statement alone is
    for (sql, d, kind), res in zip(cases, results):
        if kind == 'statement-tail' and tail_expect[(sql, d)] == 'same' and res['final'] != 'tree':
            ctx.violation('statement-with-blank-tail-rejected:%s' % d, 'a statement followed only by semicolons, line breaks and comments '
                          'that the strip and the lexer remove is not accepted', {'sql': sql, 'dialect': d, 'kind': kind, 'final': res['final']})
    kinds = {}
    for (sql, d, kind), res in zip(cases, results):
        k = (kind, res['trace']['outcome'])
        kinds['%s/%s' % k] = kinds.get('%s/%s' % k, 0) + 1
        if res['trace']['outcome'] == 'accepted':
            n_acc += 1
    ctx.cov['traces_validated_against_impl'] += sum(1 for v in verdicts if v is not None)
    ctx.cov['evaluations'] = len(cases)
    ctx.cov['accepted_runs'] = n_acc
    ctx.cov['case_kinds_by_outcome'] = kinds
    for (sql, d, kind), res in list(zip(cases, results))[::max(1, len(cases) // 5)]:
        ctx.sample({'sql': sql[:200], 'dialect': d, 'kind': kind, 'driver_outcome': res['trace']['outcome'],
                    'n_events': len(res['trace']['events'])})
    ctx.assumptions += [
        'the dialect lexer run on the stripped text is taken as the token stream of the input',
        'toy-grammar exhaustiveness is up to input length %d; dialect grammars are covered by the corpus only' % maxlen,
        'hook events in sly/yacc.py are emitted at the branches they name']
    return ctx.finish(exhaustive=False)


def replay(ctx, path):
    import json
    rec = json.load(open(path))['replay']
    res = slycheck._trace_one((rec['sql'], rec['dialect']))
    print(json.dumps({'final': res['final'], 'driver_outcome': res['trace']['outcome'],
                      'events': [e['e'] + ':' + e['ty'] for e in res['trace']['events']][-40:]}, indent=1))
    v, at = slycheck.validate_traces(ctx, slycheck.dialect_tables(ctx, rec['dialect']), [res['trace']], 'replay',
                                     workers=1, debug=True)
    print('SlyTrace verdict:', v[0], 'longest matched prefix:', at.get(1, 0), 'of', len(res['trace']['events']))
    return 0
