"""C11 -- a query on one SQL integration is pushed down whole and unchanged in meaning.

cases  : QuerySpace.tla (Family = "single"): query bodies x alias spellings (alias equal to the integration name,
         a column named like the integration, fully qualified columns, upper-case qualifier ...) x catalogs.
judge  : (1) the plan must be exactly one fetch step for that integration; (2) PlanExec (SQLSem) evaluates the
         fetch step's query on the integration's own database and the original on the merged database over all
         small databases: same rows, same order where fixed, same output column names.
"""
import json
import random

from .common import MachineryError
from .corpus import pmap
from .tlaparse import find_prints
from . import planexec, qspace

CATALOGS = {
    'names': dict(integrations=['int1', 'int2'], default_namespace='mindsdb'),
    'dicts': dict(integrations=[{'name': 'int1', 'type': 'data'}, {'name': 'int2', 'type': 'data'}],
                  default_namespace='mindsdb'),
    'default-is-int2': dict(integrations=['int1', 'int2'], default_namespace='int2'),
    'with-predictors': dict(integrations=['int1', 'int2'], default_namespace='mindsdb',
                            extra={'predictor_metadata': [{'name': 'pred', 'integration_name': 'mindsdb'}]}),
    # the same integration under other names (a name must not matter: names containing the words the planner treats
    # specially -- files, views --, mixed case, a name that is a keyword-like word)
    'named-crm_views': dict(integrations=['crm_views', 'int2'], default_namespace='mindsdb', rename={'crm_views': 'int1'}),
    'named-s3files': dict(integrations=[{'name': 's3files', 'type': 'data'}, {'name': 'int2', 'type': 'data'}],
                          default_namespace='mindsdb', rename={'s3files': 'int1'}),
    'named-MixedCase': dict(integrations=['My_Db', 'int2'], default_namespace='mindsdb', rename={'my_db': 'int1'}),
}
QUICK_CATALOGS = ['names', 'dicts', 'with-predictors', 'named-crm_views', 'named-s3files', 'named-MixedCase']


def _plan(args):
    sql, cat = args
    hb = cat.endswith('+tuples')
    cat = cat.split('+')[0]
    c = CATALOGS[cat]
    if c.get('rename'):
        import re
        new = next(iter(c['integrations'][0].values())) if isinstance(c['integrations'][0], dict) else c['integrations'][0]
        sql = re.sub(r'\bint1\b', new, sql)
        sql = re.sub(r'\bINT1\b', new.upper(), sql)
    r = planexec.plan_case(sql, integrations=c['integrations'], default_namespace=c['default_namespace'],
                           extra=c.get('extra'), rename_back=c.get('rename'), handbuilt=hb)
    return r


def run(ctx):
    thorough = ctx.tier == 'thorough'
    g = ctx.tlc('QuerySpace', cfg='QuerySpace_single.cfg', name='queryspace')
    recs = [v[1] for v in find_prints(g.out, 'Q')]
    if len(recs) != g.distinct:
        raise MachineryError('QuerySpace: parsed %d of %d' % (len(recs), g.distinct))
    recs.sort(key=lambda c: json.dumps(c, sort_keys=True))
    work = []
    for c in recs:
        sql = qspace.render(c)
        for cat in (CATALOGS if thorough else QUICK_CATALOGS):
            work.append((sql, cat, c))
        if c['body'] in ('group', 'having', 'order-limit', 'distinct', 'subquery-from'):
            # the tree handed to the planner built "by hand": GROUP BY / ORDER BY lists given as tuples
            work.append((sql, 'names+tuples', c))
    planned = pmap(_plan, [(s, cat) for s, cat, _ in work], chunksize=16)
    status = {}
    cases = []
    for (sql, cat, c), p in zip(work, planned):
        st = p['status'].split(':')[0]
        status[st] = status.get(st, 0) + 1
        key = '%s|%s' % (cat, sql)
        coord = '%s:%s' % (c['body'], c['alias'])
        if st == 'planning-refused':
            ctx.violation('refused:%s' % coord, 'a single-integration query is refused by the planner: %s' % p.get('msg'),
                          {'sql': sql, 'catalog': cat}, pin=(key, 'refused'))
            continue
        if st == 'planning-internal-error':
            ctx.violation('internal-error:%s' % coord, 'planning a single-integration query fails internally: %s' % p.get('msg'),
                          {'sql': sql, 'catalog': cat}, pin=(key, p['status']))
            continue
        if p.get('fetch_text_mismatch'):
            ctx.violation('fetch-text-is-not-its-tree:%s' % coord, 'the text of a fetch query does not say what its tree says',
                          {'sql': sql, 'catalog': cat, 'fetch_text': p['fetch_text_mismatch']}, pin=(key, 'text'))
            continue
        if 'kinds' in p and (p['kinds'] != ['FetchDataframeStep'] or p['fetch_sql'][0][0].lower() != 'int1'):
            ctx.violation('not-one-fetch:%s' % coord,
                          'the query touches only integration int1 but is not planned as exactly one fetch step for it',
                          {'sql': sql, 'catalog': cat, 'plan_steps': p['kinds'], 'fetches': p.get('fetch_sql')},
                          pin=(key, p['kinds']))
            continue
        if p['status'] == 'ok':
            p['rec'] = c
            p['cat'] = cat
            cases.append(p)
    ctx.cov['planning_status'] = status
    if not cases and not ctx.violations:
        raise MachineryError('no plan could be brought into the modelled fragment')
    if not cases:
        return ctx.finish(exhaustive=False)
    ctx.cov['oracle_crosschecked_against_sqlite3'] = planexec.oracle_crosscheck(ctx, cases, per_case=2)
    bad, r = planexec.run_planexec(ctx, cases, sample=0 if thorough else 40, names=True)
    undec = 0
    for i, outcomes in bad.items():
        c = cases[i]
        for v in sorted({v for v, _ in outcomes}):
            if v == 'undecided-original-not-in-fragment':
                undec += 1
                continue
            asg = next(a for vv, a in outcomes if vv == v)
            rec = c['rec']
            if v == 'undecided-plan-column-resolution':
                v = 'pushed-query-has-unresolvable-column'
            ctx.violation('%s:%s:%s' % (v, rec['body'], rec['alias']),
                          'the query pushed to the integration does not mean what the original query means',
                          {'sql': c['sql'], 'catalog': c['cat'], 'pushed': c['fetch_sql'], 'database': asg},
                          pin=('%s|%s' % (c['cat'], c['sql']), v))
    ctx.cov['programs'] = len(cases)
    ctx.cov['disagreements_checked'] = sum(len(v) for v in bad.values())
    ctx.cov['undecided'] = undec
    ctx.cov['evaluations'] = r.distinct
    for c in cases[::max(1, len(cases) // 5)]:
        ctx.sample({'sql': c['sql'], 'catalog': c['cat'], 'pushed': c['fetch_sql']})
    ctx.assumptions += ['one integration int1 with tables t1(a,b), t2(a,c), t3(b,c); values are small integers',
                        'output column names are compared as the last name part / alias']
    return ctx.finish(exhaustive=thorough)


def replay(ctx, path):
    rec = json.load(open(path))['replay']
    p = _plan((rec['sql'], rec.get('catalog', 'names')))
    print(json.dumps({k: v for k, v in p.items() if k != 'plan'}, indent=1))
    return 0
