#!/bin/sh
# tools/seed_import.sh <PID> <srcdir> -- copy seeded_C / seeded_D produced by a sub-agent in a scratch worktree into
# /verif/seeded/<PID>_C, _D and evaluate each (tools/seed_eval.sh).
PID=$1; SRC=$2
for K in ${KS:-C D}; do
  if [ -f $SRC/seeded_$K/patch.diff ]; then
    mkdir -p /verif/seeded/${PID}_$K
    cp $SRC/seeded_$K/patch.diff $SRC/seeded_$K/demo.py $SRC/seeded_$K/meta.json /verif/seeded/${PID}_$K/ 2>/dev/null
    sh /verif/tools/seed_eval.sh ${PID}_$K
  else
    echo "$PID $K: no patch produced"
  fi
done
