#!/bin/sh
# tools/seed_eval.sh <PID> <K> [tier]  -- confirm a sub-agent's seeded change in its scratch worktree, store it under
# /verif/seeded/<PID>_<K>/, then run ./check <PID> against /repo with the patch applied and undo it.
PID=$1; K=$2; TIER=${3:-quick}
WT=/tmp/wt/$PID
S=$WT/seeded_$K
[ -f $S/patch.diff ] || { echo "no patch at $S"; exit 2; }
cd $WT || exit 2
git checkout -q -- mindsdb_sql sly
PYTHONPATH=$WT /venv/bin/python $S/demo.py >/tmp/seed_demo_clean.out 2>&1; RC_CLEAN=$?
git apply $S/patch.diff || { echo "patch does not apply in worktree"; exit 2; }
/venv/bin/python -m pytest -q -p no:cacheprovider -x >/tmp/seed_tests.out 2>&1; RC_TESTS=$?
PYTHONPATH=$WT /venv/bin/python $S/demo.py >/tmp/seed_demo_patched.out 2>&1; RC_PATCHED=$?
git checkout -q -- mindsdb_sql sly
echo "confirm: demo clean rc=$RC_CLEAN, tests with patch rc=$RC_TESTS ($(tail -1 /tmp/seed_tests.out)), demo patched rc=$RC_PATCHED"
mkdir -p /verif/seeded/${PID}_$K
cp $S/patch.diff $S/demo.py $S/meta.json /verif/seeded/${PID}_$K/
cd /repo || exit 2
git diff --quiet || { echo "/repo not clean"; exit 2; }
git apply $S/patch.diff || { echo "patch does not apply to /repo HEAD"; exit 3; }
cd /verif && ./check $PID --tier $TIER > /tmp/seed_check_${PID}_$K.out 2>&1; RC=$?
cd /repo && git checkout -q -- . 
echo "check $PID ($TIER) on patched /repo: rc=$RC"
grep -E "^VIOLATION|signature:|MACHINERY" /tmp/seed_check_${PID}_$K.out | head -8
echo "{\"confirm\": {\"demo_clean_rc\": $RC_CLEAN, \"tests_with_patch_rc\": $RC_TESTS, \"demo_patched_rc\": $RC_PATCHED}, \"check_rc\": $RC, \"tier\": \"$TIER\"}" > /verif/seeded/${PID}_$K/result.json
