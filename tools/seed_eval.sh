#!/bin/sh
# tools/seed_eval.sh <PID>_<K> [tier] -- confirm a stored seeded change in a scratch worktree of /repo HEAD
# (tests green with it, demo passes without / fails with), then run ./check <PID> against that patched worktree
# (VERIF_REPO) and remove it.  Uses patch_rebased.diff when present.  /repo itself is never modified; work files and
# evidence of the run go to a scratch directory (VERIF_WORK / VERIF_EVIDENCE), so the committed evidence is untouched
# and several seeds can be evaluated at the same time.
ID=$1; TIER=${2:-quick}; PID=${ID%%_*}
D=/verif/seeded/$ID
P=$D/patch.diff; [ -f $D/patch_rebased.diff ] && P=$D/patch_rebased.diff
WT=/tmp/wt_eval_$ID
SW=/tmp/seedwork_$ID
rm -rf $SW; mkdir -p $SW/work $SW/evidence
cd /repo || exit 2
git worktree add -q --detach $WT HEAD || exit 2
cd $WT
PYTHONPATH=$WT /venv/bin/python $D/demo.py >$SW/demo_clean.out 2>&1; RC_CLEAN=$?
if git apply $P 2>/dev/null; then
  /venv/bin/python -m pytest -q -p no:cacheprovider -x >$SW/tests.out 2>&1; RC_TESTS=$?
  PYTHONPATH=$WT /venv/bin/python $D/demo.py >$SW/demo_patched.out 2>&1; RC_PATCHED=$?
  echo "$ID confirm: demo clean rc=$RC_CLEAN, tests with patch rc=$RC_TESTS ($(tail -1 $SW/tests.out 2>/dev/null)), demo patched rc=$RC_PATCHED"
  cd /verif && VERIF_REPO=$WT VERIF_WORK=$SW/work VERIF_EVIDENCE=$SW/evidence ./check $PID --tier $TIER > $SW/check.out 2>&1; RC=$?
  echo "$ID: check $PID ($TIER) on patched tree: rc=$RC"
  SIGS=$(grep -E "signature:" $SW/check.out | head -4 | sed 's/.*signature: //' | tr '\n' ';' | sed 's/"/\\"/g')
  grep -E "^VIOLATION|signature:|MACHINERY" $SW/check.out | head -6
  echo "{\"confirm\": {\"demo_clean_rc\": $RC_CLEAN, \"tests_with_patch_rc\": $RC_TESTS, \"demo_patched_rc\": $RC_PATCHED}, \"check_rc\": $RC, \"tier\": \"$TIER\", \"patch\": \"$(basename $P)\", \"signatures\": \"$SIGS\"}" > $D/result.json
else
  echo "$ID: patch does not apply to HEAD (needs patch_rebased.diff)"
  echo "{\"error\": \"patch does not apply to HEAD\"}" > $D/result.json
fi
cd /repo && git worktree remove --force $WT
rm -rf $SW
