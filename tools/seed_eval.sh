#!/bin/sh
# tools/seed_eval.sh <PID>_<K> [tier] -- confirm a stored seeded change in a scratch worktree of /repo HEAD
# (tests green with it, demo passes without / fails with), then run ./check <PID> against /repo with the patch
# applied and undo it.  Uses patch_rebased.diff when present.
ID=$1; TIER=${2:-quick}; PID=${ID%%_*}
D=/verif/seeded/$ID
P=$D/patch.diff; [ -f $D/patch_rebased.diff ] && P=$D/patch_rebased.diff
WT=/tmp/wt_eval_$ID
cd /repo || exit 2
git diff --quiet || { echo "/repo not clean"; exit 2; }
git worktree add -q --detach $WT HEAD || exit 2
cd $WT
PYTHONPATH=$WT /venv/bin/python $D/demo.py >/tmp/seed_demo_clean.out 2>&1; RC_CLEAN=$?
if git apply $P 2>/dev/null; then
  /venv/bin/python -m pytest -q -p no:cacheprovider -x >/tmp/seed_tests.out 2>&1; RC_TESTS=$?
  PYTHONPATH=$WT /venv/bin/python $D/demo.py >/tmp/seed_demo_patched.out 2>&1; RC_PATCHED=$?
  APPLIES=1
else
  APPLIES=0; RC_TESTS=-1; RC_PATCHED=-1
fi
cd /repo && git worktree remove --force $WT
echo "$ID confirm: applies=$APPLIES demo clean rc=$RC_CLEAN, tests with patch rc=$RC_TESTS ($(tail -1 /tmp/seed_tests.out 2>/dev/null)), demo patched rc=$RC_PATCHED"
[ $APPLIES = 1 ] || { echo "patch does not apply to HEAD (needs patch_rebased.diff)"; exit 3; }
git apply $P || exit 3
cd /verif && ./check $PID --tier $TIER > /tmp/seed_check_$ID.out 2>&1; RC=$?
cd /repo && git checkout -q -- .
echo "$ID: check $PID ($TIER) on patched /repo: rc=$RC"
grep -E "^VIOLATION|signature:|MACHINERY" /tmp/seed_check_$ID.out | head -6
echo "{\"confirm\": {\"demo_clean_rc\": $RC_CLEAN, \"tests_with_patch_rc\": $RC_TESTS, \"demo_patched_rc\": $RC_PATCHED}, \"check_rc\": $RC, \"tier\": \"$TIER\", \"patch\": \"$(basename $P)\"}" > $D/result.json
