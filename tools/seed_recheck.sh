#!/bin/sh
# tools/seed_recheck.sh <PID>_<K> [tier] -- apply the stored seeded change to /repo, run the check, undo.
ID=$1; TIER=${2:-quick}; PID=${ID%%_*}
D=/verif/seeded/$ID
P=$D/patch.diff; [ -f $D/patch_rebased.diff ] && P=$D/patch_rebased.diff
cd /repo || exit 2
git diff --quiet || { echo "/repo not clean"; exit 2; }
git apply $P || { echo "patch does not apply to /repo HEAD"; exit 3; }
cd /verif && ./check $PID --tier $TIER > /tmp/seed_check_$ID.out 2>&1; RC=$?
cd /repo && git checkout -q -- .
echo "$ID: check $PID ($TIER) rc=$RC"
grep -E "^VIOLATION|signature:|MACHINERY" /tmp/seed_check_$ID.out | head -6
