#!/bin/sh
# developer sweep: every claimed check under several seeds (quick) and once thorough; prints one line per run
cd "$(dirname "$0")/.." || exit 2
IDS=$(/venv/bin/python -c "import json; print(' '.join(c['property_id'] for c in json.load(open('MANIFEST.json'))['checks']))")
for id in $IDS; do
  for seed in 1 2 3; do
    VERIF_SEED=$seed ./check $id --tier quick > /tmp/sweep_${id}_q$seed.out 2>&1; rc=$?
    echo "$id quick seed=$seed rc=$rc $(grep -c '^VIOLATION' /tmp/sweep_${id}_q$seed.out) violations; $(tail -1 /tmp/sweep_${id}_q$seed.out)"
  done
done
for id in $IDS; do
  VERIF_SEED=5 ./check $id --tier thorough > /tmp/sweep_${id}_t.out 2>&1; rc=$?
  echo "$id thorough seed=5 rc=$rc $(grep -c '^VIOLATION' /tmp/sweep_${id}_t.out) violations; $(tail -1 /tmp/sweep_${id}_t.out)"
  grep -A2 '^VIOLATION' /tmp/sweep_${id}_t.out | head -30
done
