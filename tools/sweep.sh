#!/bin/sh
# developer sweep: tools/sweep.sh <tier> <seed> [ids...] -- every claimed check (or the given ones) once with the given
# tier and seed, each in its own scratch work/evidence directory (so runs can go in parallel and the committed evidence
# is untouched); one line per run, violations listed.
cd "$(dirname "$0")/.." || exit 2
TIER=$1; SEED=$2; shift 2
IDS="$*"
[ -z "$IDS" ] && IDS=$(/venv/bin/python -c "import json; print(' '.join(c['property_id'] for c in json.load(open('MANIFEST.json'))['checks']))")
run_one() {
  id=$1; SW=/tmp/sweep_${id}_${TIER}_${SEED}; rm -rf $SW; mkdir -p $SW/work $SW/evidence
  VERIF_SEED=$SEED VERIF_WORK=$SW/work VERIF_EVIDENCE=$SW/evidence ./check $id --tier $TIER > $SW/out 2>&1; rc=$?
  echo "$id $TIER seed=$SEED rc=$rc $(grep -c '^VIOLATION' $SW/out) violations; $(tail -1 $SW/out)"
  if [ $rc -ne 0 ]; then grep -A3 '^VIOLATION\|MACHINERY' $SW/out | head -40; mkdir -p /verif/.work/sweep_fail; cp -r $SW /verif/.work/sweep_fail/; fi
  rm -rf $SW
}
for id in $IDS; do run_one $id; done
