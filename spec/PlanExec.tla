------------------------------ MODULE PlanExec ------------------------------
(***************************************************************************)
(* C08 / C11 (and the engine for C15): translation validation inside TLC.  *)
(* A plan is run step by step, each step under the meaning its docstring   *)
(* gives (harness/sem.py turns fetch / sub-select / join / query / union / *)
(* project / limit steps into queries over earlier step results); every    *)
(* admissible outcome of every step is explored (LIMIT may keep any of the *)
(* rows its ORDER BY does not separate).  When the last step is reached    *)
(* its result must be an admissible answer of the ORIGINAL query evaluated *)
(* on the single database that holds all the tables.  One recorded plan is *)
(* validated against every database in DBs(plan).                          *)
(***************************************************************************)
EXTENDS SQLSem, Json, IOUtils, Randomization
TS == INSTANCE TSWindow

Plans == JsonDeserialize(IOEnv.VERIF_PLANS)
Cfg == JsonDeserialize(IOEnv.VERIF_CFG)        \* [sample |-> number of databases per plan (0 = all), names |-> 0/1]

VARIABLES tid, asg, res, pc, done
vars == <<tid, asg, res, pc, done>>

\* table contents: every bag of at most t.maxrows rows over t.rowset, as canonical (non-decreasing) sequences
RECURSIVE Bags(_, _)
Bags(rs, n) == IF n = 0 THEN {<<>>}
               ELSE {<<>>} \cup {<<p[1]>> \o p[2] : p \in {q \in rs \X Bags(rs, n - 1) : q[2] = <<>> \/ ~RowLess(q[2][1], q[1])}}
Contents(t) == Bags({t.rowset[i] : i \in 1..Len(t.rowset)}, t.maxrows)

Tabs(p) == p.tables                             \* << [db, name, cols] >>
DbOf(p, a) ==
  LET ts == Tabs(p)
      dbs == {ts[i].db : i \in 1..Len(ts)}
  IN [d \in dbs |-> [n \in {ts[i].name : i \in {j \in 1..Len(ts) : ts[j].db = d}} |->
        LET i == CHOOSE j \in 1..Len(ts) : ts[j].db = d /\ ts[j].name = n IN [cols |-> ts[i].cols, rows |-> a[i]]]]

Ctx(p, a, r, defdb) == [db |-> DbOf(p, a), res |-> r, defdb |-> defdb, ctes |-> [n \in {} |-> {}], vars |-> <<>>]

RECURSIVE AsgFrom(_, _)
AsgFrom(ts, i) == IF i > Len(ts) THEN {<<>>} ELSE {<<c>> \o rest : c \in Contents(ts[i]), rest \in AsgFrom(ts, i + 1)}
AllAsg(p) == AsgFrom(Tabs(p), 1)
Init ==
  /\ tid \in 1..Len(Plans)
  /\ asg \in (IF Cfg.sample = 0 THEN AllAsg(Plans[tid]) ELSE RandomSubset(Cfg.sample, AllAsg(Plans[tid])))
  /\ res = <<>> /\ pc = 1 /\ done = FALSE

P == Plans[tid]
StepQ == P.steps[pc]

\* one action per step kind; each takes any admissible outcome of the step
Exec(kind) ==
  /\ ~done /\ pc <= Len(P.steps) /\ StepQ.kind = kind
  /\ \E r \in EvalQ(StepQ.q, Ctx(P, asg, res, StepQ.defdb)) : res' = Append(res, r)
  /\ pc' = pc + 1 /\ UNCHANGED <<tid, asg, done>>
Fetch == Exec("fetch")
SubSelect == Exec("subselect")
Join == Exec("join")
Query == Exec("query")
Union == Exec("union")
Project == Exec("project")
LimitOffset == Exec("limit")

\* containers: MultipleSteps = bag union of its sub-steps; MapReduceStep = its sub-steps once per row of `values`,
\* with $var[col] standing for that row's value of col, results bag-unioned.  Every admissible outcome is explored.
RECURSIVE SubsOutcomes(_, _, _)
SubsOutcomes(subs, i, c) ==
  IF i > Len(subs) THEN {<<>>}
  ELSE {r.rows \o rest : r \in EvalQ(subs[i].q, [c EXCEPT !.defdb = subs[i].defdb]), rest \in SubsOutcomes(subs, i + 1, c)}
HdrOfSubs(subs, c) == (CHOOSE r \in EvalQ(subs[1].q, [c EXCEPT !.defdb = subs[1].defdb]) : TRUE).hdr
Multiple ==
  /\ ~done /\ pc <= Len(P.steps) /\ StepQ.kind = "multiple"
  /\ LET c == Ctx(P, asg, res, "") IN
     \E rows \in SubsOutcomes(StepQ.subs, 1, c) : res' = Append(res, Rel(HdrOfSubs(StepQ.subs, c), rows, FALSE))
  /\ pc' = pc + 1 /\ UNCHANGED <<tid, asg, done>>
RECURSIVE PerRow(_, _, _)
PerRow(vals, i, c) ==
  IF i > Len(vals.rows) THEN {<<>>}
  ELSE LET vv == [n \in {vals.hdr[k].c : k \in 1..Len(vals.hdr)} |->
                      vals.rows[i][CHOOSE k \in 1..Len(vals.hdr) : vals.hdr[k].c = n]]
       IN {a \o b : a \in SubsOutcomes(StepQ.subs, 1, [c EXCEPT !.vars = vv]), b \in PerRow(vals, i + 1, c)}
MapReduce ==
  /\ ~done /\ pc <= Len(P.steps) /\ StepQ.kind = "mapreduce"
  /\ LET c == Ctx(P, asg, res, "") vals == res[StepQ.values + 1]
         hdr == HdrOfSubs(StepQ.subs, [c EXCEPT !.vars = [n \in {vals.hdr[k].c : k \in 1..Len(vals.hdr)} |-> NULL]]) IN
     IF IsErrRel(vals)
     THEN res' = Append(res, Rel(<<>>, <<<<ERR>>>>, FALSE))          \* the partition list itself could not be computed
     ELSE \E rows \in PerRow(vals, 1, c) : res' = Append(res, Rel(hdr, rows, FALSE))
  /\ pc' = pc + 1 /\ UNCHANGED <<tid, asg, done>>

Orig == EvalQ(P.orig, Ctx(P, asg, <<>>, P.defdb))
Answer == res[Len(res)]
Names(rel) == [i \in 1..Len(rel.hdr) |-> rel.hdr[i].c]

\* a query shipped to an integration still carries an integration qualifier on a table or a column: evaluated THERE the
\* name resolves to nothing, the fetch fails (the plan has no answer although the original query has one)
Unstripped(q) == "unstripped" \in DOMAIN q /\ q.unstripped = 1
ShipsQualifiedName ==
  \E i \in 1..Len(P.steps) :
     \/ P.steps[i].kind = "fetch" /\ Unstripped(P.steps[i].q)
     \/ P.steps[i].kind \in {"multiple", "mapreduce"} /\ \E j \in 1..Len(P.steps[i].subs) : Unstripped(P.steps[i].subs[j].q)
\* C15: the last executed step is the data handed to the time-series model
TSVerdict ==
  LET t == Tabs(P)[1]
      adm == TS!Admissible(P.ts, t.cols, asg[1])
  IN IF IsErrRel(Answer) /\ ShipsQualifiedName THEN "model-input-not-admissible:fetch-cannot-be-evaluated"
     ELSE IF IsErrRel(Answer) THEN "undecided-plan-column-resolution"
     ELSE IF Canon(Answer.rows) \in adm THEN "ok" ELSE "model-input-not-admissible"

Verdict ==
  IF P.ts.on = 1 THEN TSVerdict ELSE
  LET o == Orig
      ordered == \A x \in o : x.ord
  IN
  IF \E r \in o : IsErrRel(r) THEN "undecided-original-not-in-fragment"
  ELSE IF IsErrRel(Answer) /\ ShipsQualifiedName THEN "rows-differ:fetch-ships-a-qualified-name"
  ELSE IF IsErrRel(Answer) THEN "undecided-plan-column-resolution"
  ELSE IF ~\E r \in o : SameBag(Answer.rows, r.rows) THEN "rows-differ"
  ELSE IF ordered /\ ~(Answer.ord /\ \E r \in o : SameOrdered(Answer, r)) THEN "order-differs"
  ELSE IF Cfg.names = 1 /\ ~\E r \in o : Names(r) = Names(Answer) THEN "column-names-differ"
  ELSE "ok"

Finish ==
  /\ ~done /\ pc = Len(P.steps) + 1 /\ done' = TRUE
  /\ LET v == Verdict IN v # "ok" => PrintT(<<"BAD", tid, v, asg>>)
  /\ UNCHANGED <<tid, asg, res, pc>>

Next == Fetch \/ SubSelect \/ Join \/ Query \/ Union \/ Project \/ LimitOffset \/ Multiple \/ MapReduce \/ Finish
Spec == Init /\ [][Next]_vars
=============================================================================
