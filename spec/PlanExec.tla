------------------------------ MODULE PlanExec ------------------------------
(***************************************************************************)
(* C08 / C11 (and the engine for C15): translation validation inside TLC.  *)
(* A plan is run step by step, each step under the meaning its docstring   *)
(* gives (harness/sem.py turns fetch / sub-select / join / query / union / *)
(* project / limit steps into queries over earlier step results); every    *)
(* admissible outcome of every step is explored (LIMIT may keep any of the *)
(* rows its ORDER BY does not separate).  When the last step is reached    *)
(* its result must be an admissible answer of the ORIGINAL query evaluated *)
(* on the single database that holds all the tables.  One recorded plan is *)
(* validated against every database in DBs(plan).                          *)
(***************************************************************************)
EXTENDS SQLSem, Json, IOUtils, Randomization

Plans == JsonDeserialize(IOEnv.VERIF_PLANS)
Cfg == JsonDeserialize(IOEnv.VERIF_CFG)        \* [sample |-> number of databases per plan (0 = all), names |-> 0/1]

VARIABLES tid, asg, res, pc, done
vars == <<tid, asg, res, pc, done>>

\* table contents: every bag of at most 2 rows over RowSet (two columns per table), in canonical order
RowSet == {<<1, 1>>, <<1, 2>>, <<2, 1>>, <<NULL, 1>>, <<2, NULL>>}
Contents == {<<>>} \cup {<<r>> : r \in RowSet} \cup {<<p[1], p[2]>> : p \in {x \in RowSet \X RowSet : ~RowLess(x[2], x[1])}}

Tabs(p) == p.tables                             \* << [db, name, cols] >>
DbOf(p, a) ==
  LET ts == Tabs(p)
      dbs == {ts[i].db : i \in 1..Len(ts)}
  IN [d \in dbs |-> [n \in {ts[i].name : i \in {j \in 1..Len(ts) : ts[j].db = d}} |->
        LET i == CHOOSE j \in 1..Len(ts) : ts[j].db = d /\ ts[j].name = n IN [cols |-> ts[i].cols, rows |-> a[i]]]]

Ctx(p, a, r, defdb) == [db |-> DbOf(p, a), res |-> r, defdb |-> defdb, ctes |-> [n \in {} |-> {}]]

AllAsg(p) == [1..Len(Tabs(p)) -> Contents]
Init ==
  /\ tid \in 1..Len(Plans)
  /\ asg \in (IF Cfg.sample = 0 THEN AllAsg(Plans[tid]) ELSE RandomSubset(Cfg.sample, AllAsg(Plans[tid])))
  /\ res = <<>> /\ pc = 1 /\ done = FALSE

P == Plans[tid]
StepQ == P.steps[pc]

\* one action per step kind; each takes any admissible outcome of the step
Exec(kind) ==
  /\ ~done /\ pc <= Len(P.steps) /\ StepQ.kind = kind
  /\ \E r \in EvalQ(StepQ.q, Ctx(P, asg, res, StepQ.defdb)) : res' = Append(res, r)
  /\ pc' = pc + 1 /\ UNCHANGED <<tid, asg, done>>
Fetch == Exec("fetch")
SubSelect == Exec("subselect")
Join == Exec("join")
Query == Exec("query")
Union == Exec("union")
Project == Exec("project")
LimitOffset == Exec("limit")

Orig == EvalQ(P.orig, Ctx(P, asg, <<>>, P.defdb))
Answer == res[Len(res)]
Names(rel) == [i \in 1..Len(rel.hdr) |-> rel.hdr[i].c]

Verdict ==
  LET o == Orig
      ordered == \A x \in o : x.ord
  IN
  IF \E r \in o : IsErrRel(r) THEN "undecided-original-not-in-fragment"
  ELSE IF IsErrRel(Answer) THEN "undecided-plan-column-resolution"
  ELSE IF ~\E r \in o : SameBag(Answer.rows, r.rows) THEN "rows-differ"
  ELSE IF ordered /\ ~(Answer.ord /\ \E r \in o : SameOrdered(Answer, r)) THEN "order-differs"
  ELSE IF Cfg.names = 1 /\ ~\E r \in o : Names(r) = Names(Answer) THEN "column-names-differ"
  ELSE "ok"

Finish ==
  /\ ~done /\ pc = Len(P.steps) + 1 /\ done' = TRUE
  /\ LET v == Verdict IN v # "ok" => PrintT(<<"BAD", tid, v, asg>>)
  /\ UNCHANGED <<tid, asg, res, pc>>

Next == Fetch \/ SubSelect \/ Join \/ Query \/ Union \/ Project \/ LimitOffset \/ Finish
Spec == Init /\ [][Next]_vars
=============================================================================
