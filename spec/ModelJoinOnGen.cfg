SPECIFICATION Spec
INVARIANT Sound
INVARIANT Emit
