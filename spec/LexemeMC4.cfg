SPECIFICATION Spec
CONSTANT N = 4
INVARIANT SelfConsistent
INVARIANT Inert
INVARIANT Emit
