-------------------------------- MODULE Heap --------------------------------
(***************************************************************************)
(* C18: copies are independent.  An object graph: addresses -> objects     *)
(*   [kind |-> "node", f |-> [field |-> value]]   value = <<"s", scalar>>  *)
(*   | <<"r", address>> | <<"n">> (None);  lists and dicts are objects     *)
(*   [kind |-> "list", items |-> <<values>>] / [kind |-> "dict", ...].     *)
(* Copy policies:                                                          *)
(*   "deep"   copy.deepcopy: every reachable mutable object is duplicated  *)
(*   "fixed"  a hand-written __deepcopy__ that rebuilds the node from a    *)
(*            fixed list of fields (Identifier.__deepcopy__): fields in    *)
(*            the list are deep-copied, any other field is SHARED or       *)
(*            DROPPED -- what happens to a field added later.              *)
(* After the copy, any single-attribute mutation of the copy (set a        *)
(* scalar, append to / remove from a list, re-point a reference) must      *)
(* leave what the original prints unchanged.                               *)
(***************************************************************************)
EXTENDS Naturals, Sequences, FiniteSets, TLC

CONSTANTS Policy,     \* "deep" | "fixed-share" | "fixed-drop"
          Listed      \* fields the hand-written copy knows about
VARIABLES heap, orig, copy, nmut, printed0

vars == <<heap, orig, copy, nmut, printed0>>
Fields == {"parts", "alias", "extra"}

\* original: node 1 with parts -> list 2 (two scalars), alias -> node 3 (parts -> list 4), extra -> list 5
Heap0 == [a \in 1..5 |->
            CASE a = 1 -> [kind |-> "node", f |-> [x \in Fields |-> CASE x = "parts" -> <<"r", 2>> [] x = "alias" -> <<"r", 3>> [] OTHER -> <<"r", 5>>]]
              [] a = 2 -> [kind |-> "list", items |-> <<<<"s", 1>>, <<"s", 2>>>>]
              [] a = 3 -> [kind |-> "node", f |-> [x \in Fields |-> IF x = "parts" THEN <<"r", 4>> ELSE <<"n">>]]
              [] a = 4 -> [kind |-> "list", items |-> <<<<"s", 3>>>>]
              [] OTHER -> [kind |-> "list", items |-> <<<<"s", 9>>>>]]

RECURSIVE Reach(_, _, _)
Refs(h, a) == IF h[a].kind = "node" THEN {h[a].f[x][2] : x \in {y \in Fields : h[a].f[y][1] = "r"}}
              ELSE {h[a].items[i][2] : i \in {j \in 1..Len(h[a].items) : h[a].items[j][1] = "r"}}
Reach(h, S, n) == IF n = 0 THEN S ELSE Reach(h, S \cup UNION {Refs(h, a) : a \in S}, n - 1)
Reachable(h, a) == Reach(h, {a}, 6)

\* what an object prints (structure with scalars, addresses erased)
RECURSIVE Show(_, _, _)
Show(h, v, fuel) ==
  IF fuel = 0 THEN <<"...">>
  ELSE IF v[1] # "r" THEN v
  ELSE LET o == h[v[2]] IN
       IF o.kind = "node" THEN <<"node", [x \in Fields |-> Show(h, o.f[x], fuel - 1)]>>
       ELSE <<"list", [i \in 1..Len(o.items) |-> Show(h, o.items[i], fuel - 1)]>>

\* deep copy of the graph below address a into fresh addresses (offset by k)
Off == 10
DeepCopy(h) == [a \in DOMAIN h \cup {b + Off : b \in DOMAIN h} |->
                 IF a \in DOMAIN h THEN h[a]
                 ELSE LET o == h[a - Off] IN
                      IF o.kind = "node" THEN [kind |-> "node", f |-> [x \in Fields |-> IF o.f[x][1] = "r" THEN <<"r", o.f[x][2] + Off>> ELSE o.f[x]]]
                      ELSE [kind |-> o.kind, items |-> [i \in 1..Len(o.items) |-> IF o.items[i][1] = "r" THEN <<"r", o.items[i][2] + Off>> ELSE o.items[i]]]]
\* hand-written copy of the ROOT: listed fields deep-copied, others shared with the original or dropped
FixedCopy(h) ==
  LET d == DeepCopy(h) IN
  [d EXCEPT ![1 + Off].f = [x \in Fields |-> IF x \in Listed THEN d[1 + Off].f[x]
                                            ELSE IF Policy = "fixed-share" THEN h[1].f[x] ELSE <<"n">>]]

Init == /\ heap = (IF Policy = "deep" THEN DeepCopy(Heap0) ELSE FixedCopy(Heap0))
        /\ orig = 1 /\ copy = 1 + Off /\ nmut = 0
        /\ printed0 = Show(Heap0, <<"r", 1>>, 6)

\* single-attribute mutations of objects reachable from the copy
SetScalar(a, i) == /\ heap[a].kind = "list" /\ i \in 1..Len(heap[a].items)
                   /\ heap' = [heap EXCEPT ![a].items[i] = <<"s", 77>>]
AppendItem(a) == /\ heap[a].kind = "list" /\ heap' = [heap EXCEPT ![a].items = Append(@, <<"s", 88>>)]
RemoveLast(a) == /\ heap[a].kind = "list" /\ heap[a].items # <<>>
                 /\ heap' = [heap EXCEPT ![a].items = SubSeq(@, 1, Len(@) - 1)]
SetField(a, x) == /\ heap[a].kind = "node" /\ heap' = [heap EXCEPT ![a].f[x] = <<"s", 99>>]
Mutate == /\ nmut < 2 /\ nmut' = nmut + 1 /\ UNCHANGED <<orig, copy, printed0>>
          /\ \E a \in Reachable(heap, copy) : AppendItem(a) \/ RemoveLast(a) \/ (\E i \in 1..3 : SetScalar(a, i)) \/ (\E x \in Fields : SetField(a, x))
Spec == Init /\ [][Mutate]_vars

CopyEqual == nmut = 0 => Show(heap, <<"r", copy>>, 6) = printed0
Disjoint == nmut = 0 => Reachable(heap, orig) \cap Reachable(heap, copy) = {}
OriginalUntouched == Show(heap, <<"r", orig>>, 6) = printed0
=============================================================================
