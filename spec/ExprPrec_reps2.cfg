SPECIFICATION Spec
CONSTANTS N = 2
 Mode = "reps"
 Parens = "min"
INVARIANT Emit
INVARIANT PrintSane
