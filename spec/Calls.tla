------------------------------- MODULE Calls -------------------------------
(***************************************************************************)
(* C20: concurrent calls into the library.  A call takes an instance       *)
(* (lexer+parser, planner, renderer) according to a policy, resets it,     *)
(* performs its steps on it and reads its result off it.                   *)
(*   Policy "Fresh"  : get_lexer_parser / QueryPlanner() / SqlalchemyRender *)
(*                     build a new instance per call (today's code)        *)
(*   Policy "Cached" : one instance per dialect, reused (the obvious       *)
(*                     optimisation that keeps every test green)           *)
(* The instance state is abstracted to the sequence of items pushed since  *)
(* the last reset -- enough to show corruption: the result a call reads    *)
(* must be its own input.                                                  *)
(***************************************************************************)
EXTENDS Naturals, Sequences, FiniteSets, TLC

CONSTANTS Threads, Policy, Steps     \* Steps = number of driver steps per call

VARIABLES tpc,     \* tpc[t] \in {"idle", "running", "done"}
          inst,    \* inst[t]: instance id in use
          k,       \* k[t]: steps performed
          stack,   \* stack[i]: items pushed on instance i since its last reset
          result,  \* result[t]
          owners,  \* owners[i]: set of in-flight calls using instance i
          sched    \* history: the interleaving so far (thread ids)

vars == <<tpc, inst, k, stack, result, owners, sched>>

Dialect(t) == "d"                           \* all calls use the same dialect (worst case for caching)
InstOf(t) == IF Policy = "Fresh" THEN t ELSE Dialect(t)
Insts == {InstOf(t) : t \in Threads}
Input(t) == [j \in 1..Steps |-> <<t, j>>]   \* each call pushes distinguishable items

Init == /\ tpc = [t \in Threads |-> "idle"] /\ inst = [t \in Threads |-> InstOf(t)]
        /\ k = [t \in Threads |-> 0] /\ stack = [i \in Insts |-> <<>>]
        /\ result = [t \in Threads |-> <<>>] /\ owners = [i \in Insts |-> {}] /\ sched = <<>>

Begin(t) == /\ tpc[t] = "idle"
            /\ tpc' = [tpc EXCEPT ![t] = "running"]
            /\ stack' = [stack EXCEPT ![inst[t]] = <<>>]              \* parser.restart()
            /\ owners' = [owners EXCEPT ![inst[t]] = @ \cup {t}]
            /\ sched' = Append(sched, t) /\ UNCHANGED <<inst, k, result>>
Step(t) == /\ tpc[t] = "running" /\ k[t] < Steps
           /\ stack' = [stack EXCEPT ![inst[t]] = Append(@, Input(t)[k[t] + 1])]
           /\ k' = [k EXCEPT ![t] = @ + 1]
           /\ sched' = Append(sched, t) /\ UNCHANGED <<tpc, inst, result, owners>>
End(t) == /\ tpc[t] = "running" /\ k[t] = Steps
          /\ result' = [result EXCEPT ![t] = stack[inst[t]]]
          /\ tpc' = [tpc EXCEPT ![t] = "done"]
          /\ owners' = [owners EXCEPT ![inst[t]] = @ \ {t}]
          /\ sched' = Append(sched, t) /\ UNCHANGED <<inst, k, stack>>

Next == \E t \in Threads : Begin(t) \/ Step(t) \/ End(t)
Spec == Init /\ [][Next]_vars /\ WF_vars(Next)

Isolation == \A t \in Threads : tpc[t] = "done" => result[t] = Input(t)
OwnerExclusive == \A i \in Insts : Cardinality(owners[i]) <= 1
AllDone == \A t \in Threads : tpc[t] = "done"
Terminates == <>AllDone
\* every complete interleaving, printed for the harness to force on real threads
Emit == AllDone => PrintT(<<"SCHED", sched>>)
=============================================================================
