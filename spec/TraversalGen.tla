---------------------------- MODULE TraversalGen ----------------------------
(* spec -> code: every node kind in every slot of every node kind (depth 2), and *)
(* every such pair again below every expression/query slot (depth 3).  Each tree *)
(* is numbered in pre-order and printed with its expected visit sequence; the    *)
(* harness builds the real AST from it and runs the real walker.                 *)
EXTENDS Traversal
CONSTANT Depth
VARIABLE c

Leaf(k) == [k |-> k, ch |-> <<>>]
Expr == {"Identifier", "Constant", "Parameter", "BinaryOperation", "UnaryOperation", "BetweenOperation",
         "Function", "WindowFunction", "TypeCast", "Tuple", "Case", "Select", "Exists", "NotExists"}
Query == {"Select", "Union", "Intersect", "Except"}
TableK == {"Identifier", "Select", "Join", "NativeQuery"}

\* which kinds may stand in slot `s` of a node of kind `k`
Allowed(k, s) ==
  CASE s \in {"from_table", "table", "name"} \/ (k = "Join" /\ s \in {"left", "right"}) -> TableK
    [] s \in {"from_select", "cte"} \/ (k \in Query \ {"Select"} /\ s \in {"left", "right"}) -> Query
    [] k \in {"Exists", "NotExists"} -> {"Select"}
    [] s = "order_by" -> {"OrderBy"}
    [] s = "targets" -> Expr \cup {"Star"}
    [] OTHER -> Expr

DefaultKind(k, s) ==
  CASE s = "order_by" -> "OrderBy"
    [] s \in {"from_select", "cte"} \/ (k \in Query \ {"Select"} /\ s \in {"left", "right"}) \/ k \in {"Exists", "NotExists"} -> "Select"
    [] OTHER -> "Identifier"

\* minimal instance of a kind: every slot holds one default child (two for list-like slots of operations)
RECURSIVE Min(_, _)
Min(k, fuel) ==
  IF k \notin Kinds \/ fuel = 0 THEN Leaf(k)
  ELSE [k |-> k, ch |-> [i \in 1..Len(Schema[k]) |->
          LET s == Schema[k][i] d == DefaultKind(k, s.name)
              one == IF d = "Select" THEN [k |-> "Select", ch |-> <<<<"targets", <<Leaf("Identifier")>>>>,
                                                                    <<"from_table", <<Leaf("Identifier")>>>>>>]
                     ELSE IF d = "OrderBy" THEN [k |-> "OrderBy", ch |-> <<<<"field", <<Leaf("Identifier")>>>>>>]
                     ELSE Leaf(d)
          IN <<s.name, IF s.name = "cte" THEN <<>>                         \* CTEs only when plugged
                       ELSE IF s.shape \in {"list", "rows", "dictvals", "rules"} /\ s.name # "order_by" /\ s.name # "group_by"
                            THEN <<one, one>> ELSE <<one>>>>]]

\* put child x into slot number i of node p at position pos (1 = first, 2 = last)
Plug(p, i, pos, x) ==
  [p EXCEPT !.ch = [p.ch EXCEPT ![i] = <<p.ch[i][1],
       IF p.ch[i][2] = <<>> THEN <<x>>
       ELSE IF pos = 1 THEN <<x>> \o Tail(p.ch[i][2]) ELSE SubSeq(p.ch[i][2], 1, Len(p.ch[i][2]) - 1) \o <<x>>>>]]

\* the child kinds to plug; non-leaf kinds come as minimal instances
Inst(k) == Min(k, 1)

D2 == {[p |-> P, i |-> i, pos |-> pos, x |-> Inst(C)] :
         P \in Kinds, i \in 1..7, pos \in 1..2, C \in Expr \cup Query \cup TableK \cup {"OrderBy", "Star"}}
Valid2(d) == /\ d.i <= Len(Schema[d.p]) /\ d.x.k \in Allowed(d.p, Schema[d.p][d.i].name)
             /\ (d.pos = 2 => Schema[d.p][d.i].shape # "one")
Tree2(d) == Plug(Min(d.p, 1), d.i, d.pos, d.x)

\* depth 3: a depth-2 tree plugged into every slot of every kind
D3 == {[p |-> P, i |-> i, d |-> d] : P \in Kinds, i \in 1..7, d \in {e \in D2 : Valid2(e)}}
Valid3(e) == e.i <= Len(Schema[e.p]) /\ e.d.p \in Allowed(e.p, Schema[e.p][e.i].name)
Tree3(e) == Plug(Min(e.p, 1), e.i, 1, Tree2(e.d))

\* statements are roots themselves; expressions are wrapped as the WHERE of a select
Stmt == {"Select", "Union", "Intersect", "Except", "Insert", "Update", "Delete", "CreateTable"}
Wrap(t) == IF t.k \in Stmt THEN t
           ELSE IF t.k = "Join" THEN [k |-> "Select", ch |-> <<<<"targets", <<Leaf("Star")>>>>, <<"from_table", <<t>>>>>>]
           ELSE IF t.k = "OrderBy" THEN [k |-> "Select", ch |-> <<<<"targets", <<Leaf("Star")>>>>, <<"from_table", <<Leaf("Identifier")>>>>, <<"order_by", <<t>>>>>>]
           ELSE [k |-> "Select", ch |-> <<<<"targets", <<Leaf("Star")>>>>, <<"from_table", <<Leaf("Identifier")>>>>, <<"where", <<t>>>>>>]

\* pre-order numbering
RECURSIVE Num(_, _), NumSeq(_, _), NumSlots(_, _, _)
\* returns <<tree with ids, next free id>>
Num(t, n) == LET r == NumSlots(t.ch, 1, n + 1) IN <<[k |-> t.k, id |-> n, ch |-> r[1]], r[2]>>
NumSlots(ch, i, n) ==
  IF i > Len(ch) THEN <<<<>>, n>>
  ELSE LET a == NumSeq(ch[i][2], n) b == NumSlots(ch, i + 1, a[2]) IN <<<<<<ch[i][1], a[1]>>>> \o b[1], b[2]>>
NumSeq(ts, n) ==
  IF ts = <<>> THEN <<<<>>, n>>
  ELSE LET a == Num(Head(ts), n) b == NumSeq(Tail(ts), a[2]) IN <<<<a[1]>> \o b[1], b[2]>>

\* a node with exactly one of its slots filled (guards that make one slot depend on another show up here)
Solo(P, i) == [k |-> P, ch |-> [j \in 1..Len(Schema[P]) |->
                 IF j = i THEN Min(P, 1).ch[j]
                 ELSE IF P = "Select" /\ Schema[P][j].name \in {"targets", "from_table"} THEN Min(P, 1).ch[j]
                 ELSE <<Schema[P][j].name, <<>>>>]]
Solos == UNION {{Wrap(Solo(P, i)) : i \in 1..Len(Schema[P])} : P \in Kinds}

Cases == {Wrap(Tree2(d)) : d \in {e \in D2 : Valid2(e)}} \cup Solos
         \cup (IF Depth >= 3 THEN {Wrap(Tree3(e)) : e \in {f \in D3 : Valid3(f)}} ELSE {})

Init == c \in Cases
Next == UNCHANGED c
Spec == Init /\ [][Next]_c

Emit == LET t == Num(c, 1)[1] IN PrintT(<<"CASE", t, [i \in 1..Len(Expected(t)) |->
            <<Expected(t)[i].id, Expected(t)[i].table, Expected(t)[i].target>>]>>)
\* spec-level sanity of the contract itself: pre-order visits every node exactly once
RECURSIVE Count(_), CountSeqs(_)
Count(t) == 1 + CountSeqs(t.ch)
CountSeqs(ch) == IF ch = <<>> THEN 0 ELSE
   (LET ts == Head(ch)[2] IN IF ts = <<>> THEN 0 ELSE Count(Head(ts)) + CountSeqs(<<<<Head(ch)[1], Tail(ts)>>>>))
   + CountSeqs(Tail(ch))
EachOnce == LET t == Num(c, 1)[1] e == Expected(t) IN
              /\ Len(e) = Count(t) /\ Cardinality(Ids(e)) = Len(e)
              /\ \A i \in 1..Len(e) : e[i].id = i          \* pre-order = numbering order = textual order
=============================================================================
