----------------------------- MODULE SlyDriver -----------------------------
(***************************************************************************)
(* The LR parse loop of sly/yacc.py  Parser.parse, one action per branch   *)
(* of the loop, in the code's order.  Written to be bound: the variables   *)
(* are the locals of the Python function, the action names are the hook    *)
(* events emitted by the guarded sink in sly/yacc.py.                      *)
(*                                                                         *)
(* Tables (Prods / Action / Goto / Defaulted) are constants exported from  *)
(* the repository's own sly at check time.  States are numbered from 0 in  *)
(* the code, so table rows are indexed state+1 here.                       *)
(*                                                                         *)
(* The error callback (Parser.error) has three shapes:                     *)
(*   "raise"        SQLParser / MySQLParser: raise ParsingException        *)
(*   "record_drain" MindsDBParser: store error_info, *consume the rest of  *)
(*                  the token iterator as a side effect*, return None      *)
(*   "record_only"  the plausible refactoring that stops draining          *)
(* A callback that returns a token (user panic mode) is not modelled: no   *)
(* dialect does it.                                                        *)
(***************************************************************************)
EXTENDS Naturals, Integers, Sequences, FiniteSets, TLC

CONSTANTS
  Prods,       \* Prods[p] = [name |-> nonterminal, rhs |-> <<symbols>>], p = sly production number (>= 1)
  Action,      \* Action[s+1] = [tokentype |-> int]   >0 shift, <0 reduce, 0 accept; absent = error
  Goto,        \* Goto[s+1]   = [nonterminal |-> state]
  Defaulted,   \* Defaulted[s+1] = 0, or the (negative) single reduce action of a defaulted state
  RaisingProds \* productions whose grammar action may raise ParsingException (design model only)

VARIABLES
  input,       \* the token types produced by the lexer (constant during a behaviour)
  cb,          \* the callback shape (constant during a behaviour)
  pos,         \* how many tokens have been taken from the token iterator
  look,        \* current lookahead symbol, or NoLook
  lookStack,   \* stack of saved lookahead symbols (Python list, top = last)
  stateStack,  \* statestack
  symStack,    \* symstack (symbol types only)
  state,       \* self.state
  errcount,    \* errorcount
  errok,       \* self.errorok
  pc,          \* "top" | "incb" | "aftercb" | "recover"  (where inside the loop body we are)
  phase,       \* "run" | "accepted" | "none" | "raised_parsing" | "raised_action"
  shifted,     \* history: indices (into input) of the tokens shifted, in order
  dropped,     \* history: indices of input tokens that left the lookahead without being shifted
  ncb          \* history: number of times the error callback was entered

vars == <<input, cb, pos, look, lookStack, stateStack, symStack, state, errcount, errok, pc,
          phase, shifted, dropped, ncb>>

ERROR_COUNT == 3
NoAct == 1000000                       \* "t is None"
NoLook == [type |-> "<none>", idx |-> 0]
EndTok == [type |-> "$end", idx |-> 0]
ErrSym == [type |-> "error", idx |-> 0]

Last(s) == s[Len(s)]
Front(s) == SubSeq(s, 1, Len(s) - 1)

IsDefaulted == Defaulted[state + 1] # 0
NeedLook == ~IsDefaulted /\ look = NoLook

\* the value of local `t` once a lookahead is available (or the state is defaulted)
T == IF IsDefaulted THEN Defaulted[state + 1]
     ELSE IF look.type \in DOMAIN Action[state + 1] THEN Action[state + 1][look.type]
     ELSE NoAct

Init(inp, callback) ==
  /\ input = inp /\ cb = callback
  /\ pos = 0 /\ look = NoLook /\ lookStack = <<>>
  /\ stateStack = <<0>> /\ symStack = <<"$end">> /\ state = 0
  /\ errcount = 0 /\ errok = FALSE
  /\ pc = "top" /\ phase = "run"
  /\ shifted = <<>> /\ dropped = <<>> /\ ncb = 0

Running == phase = "run"

----------------------------------------------------------------------------
\* lookahead = next(tokens, None); used_tokens.append(lookahead); None becomes $end
Pull ==
  /\ Running /\ pc = "top" /\ NeedLook /\ lookStack = <<>>
  /\ IF pos < Len(input)
       THEN look' = [type |-> input[pos + 1], idx |-> pos + 1] /\ pos' = pos + 1
       ELSE look' = EndTok /\ pos' = pos
  /\ UNCHANGED <<input, cb, lookStack, stateStack, symStack, state, errcount, errok, pc, phase,
                 shifted, dropped, ncb>>

\* lookahead = lookaheadstack.pop()
PopLook ==
  /\ Running /\ pc = "top" /\ NeedLook /\ lookStack # <<>>
  /\ look' = Last(lookStack) /\ lookStack' = Front(lookStack)
  /\ UNCHANGED <<input, cb, pos, stateStack, symStack, state, errcount, errok, pc, phase,
                 shifted, dropped, ncb>>

\* t > 0
Shift ==
  /\ Running /\ pc = "top" /\ ~NeedLook /\ T # NoAct /\ T > 0
  /\ stateStack' = Append(stateStack, T) /\ state' = T
  /\ symStack' = Append(symStack, look.type)
  /\ shifted' = IF look.idx > 0 THEN Append(shifted, look.idx) ELSE shifted
  /\ look' = NoLook
  /\ errcount' = IF errcount > 0 THEN errcount - 1 ELSE 0
  /\ UNCHANGED <<input, cb, pos, lookStack, errok, pc, phase, dropped, ncb>>

\* t < 0: call the grammar action, pop |rhs| entries, push the nonterminal, goto
Reduce(p) ==
  /\ Running /\ pc = "top" /\ ~NeedLook /\ T = -p
  /\ LET n   == Len(Prods[p].rhs)
         ss  == SubSeq(stateStack, 1, Len(stateStack) - n)
         ns  == Goto[Last(ss) + 1][Prods[p].name]
     IN /\ symStack' = Append(SubSeq(symStack, 1, Len(symStack) - n), Prods[p].name)
        /\ stateStack' = Append(ss, ns)
        /\ state' = ns
  /\ UNCHANGED <<input, cb, pos, look, lookStack, errcount, errok, pc, phase, shifted, dropped, ncb>>

\* the grammar action of production p raises (ParsingException in the design model)
ActionRaises(p) ==
  /\ Running /\ pc = "top" /\ ~NeedLook /\ T = -p
  /\ phase' = "raised_action"
  /\ UNCHANGED <<input, cb, pos, look, lookStack, stateStack, symStack, state, errcount, errok, pc,
                 shifted, dropped, ncb>>

\* t == 0
Accept ==
  /\ Running /\ pc = "top" /\ ~NeedLook /\ T = 0
  /\ phase' = "accepted"
  /\ UNCHANGED <<input, cb, pos, look, lookStack, stateStack, symStack, state, errcount, errok, pc,
                 shifted, dropped, ncb>>

\* t is None and (errorcount == 0 or self.errorok): about to call self.error(...)
ErrBegin ==
  /\ Running /\ pc = "top" /\ ~NeedLook /\ T = NoAct
  /\ (errcount = 0 \/ errok)
  /\ errcount' = ERROR_COUNT /\ errok' = FALSE
  /\ pc' = "incb" /\ ncb' = ncb + 1
  /\ UNCHANGED <<input, cb, pos, look, lookStack, stateStack, symStack, state, phase, shifted, dropped>>

\* t is None, already recovering: "Reset the error count. Unsuccessful token shifted"
ErrAgain ==
  /\ Running /\ pc = "top" /\ ~NeedLook /\ T = NoAct
  /\ ~(errcount = 0 \/ errok)
  /\ errcount' = ERROR_COUNT
  /\ pc' = "recover"
  /\ UNCHANGED <<input, cb, pos, look, lookStack, stateStack, symStack, state, errok, phase,
                 shifted, dropped, ncb>>

\* Parser.error raises (SQLParser, MySQLParser)
CbRaise ==
  /\ Running /\ pc = "incb" /\ cb = "raise"
  /\ phase' = "raised_parsing"
  /\ UNCHANGED <<input, cb, pos, look, lookStack, stateStack, symStack, state, errcount, errok, pc,
                 shifted, dropped, ncb>>

\* Parser.error records error_info and returns None, having taken k tokens from the token iterator:
\* MindsDBParser's list(self.tokens) takes all of them ("record_drain"), "record_only" takes none,
\* "record_some" leaves k open (trace validation binds it to what was observed)
CbReturn(k) ==
  /\ Running /\ pc = "incb" /\ cb \in {"record_drain", "record_only", "record_some"}
  /\ k \in 0..(Len(input) - pos)
  /\ cb = "record_drain" => k = Len(input) - pos
  /\ cb = "record_only" => k = 0
  /\ pos' = pos + k
  /\ dropped' = dropped \o [j \in 1..k |-> pos + j]
  /\ pc' = "aftercb"
  /\ UNCHANGED <<input, cb, look, lookStack, stateStack, symStack, state, errcount, errok, phase,
                 shifted, ncb>>

\* "If at EOF. We just return. Basically dead."
ReturnNoneAtEOF ==
  /\ Running /\ pc = "aftercb" /\ look.type = "$end"
  /\ phase' = "none"
  /\ UNCHANGED <<input, cb, pos, look, lookStack, stateStack, symStack, state, errcount, errok, pc,
                 shifted, dropped, ncb>>

\* the fall-through into the recovery case analysis: either we arrive from ErrAgain (pc = "recover")
\* or directly after the callback returned None with a real token as lookahead
InRecover == pc = "recover" \/ (pc = "aftercb" /\ look.type # "$end")

\* case 1: the parse is rolled back completely; the token is discarded and the driver restarts in state 0
DiscardAtBottom ==
  /\ Running /\ InRecover /\ Len(stateStack) <= 1 /\ look.type # "$end"
  /\ dropped' = dropped \o (IF look.idx > 0 THEN <<look.idx>> ELSE <<>>)
                        \o [k \in 1..Len(lookStack) |-> lookStack[Len(lookStack) + 1 - k].idx]
  /\ look' = NoLook /\ state' = 0 /\ lookStack' = <<>>
  /\ pc' = "top"
  /\ UNCHANGED <<input, cb, pos, stateStack, symStack, errcount, errok, phase, shifted, ncb>>

\* case 2: at end of input: bail out
BailAtEnd ==
  /\ Running /\ pc = "recover" /\ look.type = "$end"
  /\ phase' = "none"
  /\ UNCHANGED <<input, cb, pos, look, lookStack, stateStack, symStack, state, errcount, errok, pc,
                 shifted, dropped, ncb>>

\* error symbol already on top of the stack: nuke the input symbol
NukeUnderErrorTop ==
  /\ Running /\ InRecover /\ Len(stateStack) > 1 /\ look.type \notin {"$end", "error"}
  /\ Last(symStack) = "error"
  /\ dropped' = IF look.idx > 0 THEN Append(dropped, look.idx) ELSE dropped
  /\ look' = NoLook
  /\ pc' = "top"
  /\ UNCHANGED <<input, cb, pos, lookStack, stateStack, symStack, state, errcount, errok, phase,
                 shifted, ncb>>

\* make the error symbol the lookahead, saving the real one
PushErrorSym ==
  /\ Running /\ InRecover /\ Len(stateStack) > 1 /\ look.type \notin {"$end", "error"}
  /\ Last(symStack) # "error"
  /\ lookStack' = Append(lookStack, look) /\ look' = ErrSym
  /\ pc' = "top"
  /\ UNCHANGED <<input, cb, pos, stateStack, symStack, state, errcount, errok, phase, shifted,
                 dropped, ncb>>

\* lookahead is the error symbol and no state accepts it: pop one state
PopState ==
  /\ Running /\ InRecover /\ Len(stateStack) > 1 /\ look.type = "error"
  /\ symStack' = Front(symStack) /\ stateStack' = Front(stateStack)
  /\ state' = Last(Front(stateStack))
  /\ pc' = "top"
  /\ UNCHANGED <<input, cb, pos, look, lookStack, errcount, errok, phase, shifted, dropped, ncb>>

Next ==
  \/ Pull \/ PopLook \/ Shift \/ Accept
  \/ \E p \in 1..Len(Prods) : Reduce(p) \/ (p \in RaisingProds /\ ActionRaises(p))
  \/ ErrBegin \/ ErrAgain \/ CbRaise \/ (\E k \in 0..Len(input) : CbReturn(k)) \/ ReturnNoneAtEOF
  \/ DiscardAtBottom \/ BailAtEnd \/ NukeUnderErrorTop \/ PushErrorSym \/ PopState

----------------------------------------------------------------------------
(* C19: can token type X be shifted from the configuration whose state stack is `stack`? *)
(* (run the reductions the tables prescribe for lookahead X until a shift or an error)  *)
RedStack(stack, p) ==
  LET ss == SubSeq(stack, 1, Len(stack) - Len(Prods[p].rhs))
  IN Append(ss, Goto[Last(ss) + 1][Prods[p].name])

RECURSIVE ShiftableFrom(_, _)
ShiftableFrom(stack, X) ==
  LET s == Last(stack) IN
  IF Defaulted[s + 1] # 0 THEN ShiftableFrom(RedStack(stack, -Defaulted[s + 1]), X)
  ELSE IF X \notin DOMAIN Action[s + 1] THEN FALSE
  ELSE LET a == Action[s + 1][X] IN
       IF a >= 0 THEN TRUE ELSE ShiftableFrom(RedStack(stack, -a), X)

\* the state stack after shifting X from `stack` (<<>> if X cannot be shifted), and sequences of tokens
RECURSIVE StackAfter(_, _)
StackAfter(stack, X) ==
  LET s == Last(stack) IN
  IF Defaulted[s + 1] # 0 THEN StackAfter(RedStack(stack, -Defaulted[s + 1]), X)
  ELSE IF X \notin DOMAIN Action[s + 1] THEN <<>>
  ELSE LET a == Action[s + 1][X] IN
       IF a > 0 THEN Append(stack, a) ELSE IF a = 0 THEN stack ELSE StackAfter(RedStack(stack, -a), X)

RECURSIVE ShiftableSeq(_, _)
ShiftableSeq(stack, seq) ==
  IF seq = <<>> THEN TRUE
  ELSE LET st == StackAfter(stack, Head(seq)) IN st # <<>> /\ ShiftableSeq(st, Tail(seq))

----------------------------------------------------------------------------
(* Table-free derivability: CYK-style least fixpoint over items <<sym, i, j>>  *)
(* meaning  sym =>* input[i+1 .. j].  Independent of Action/Goto.             *)
Terminals == {input[i] : i \in 1..Len(input)}
NonTerms == {Prods[p].name : p \in 1..Len(Prods)}

RECURSIVE SpanSeq(_, _, _, _)
\* can the symbol sequence rhs (from position k on) derive input[i+1..j] given the item set S
SpanSeq(S, rhs, i, j) ==
  IF rhs = <<>> THEN i = j
  ELSE \E m \in i..j : <<Head(rhs), i, m>> \in S /\ SpanSeq(S, Tail(rhs), m, j)

RECURSIVE Closure(_)
Closure(S) ==
  LET n == Len(input)
      new == S \cup {<<Prods[p].name, i, j>> : p \in 1..Len(Prods), i \in 0..n, j \in 0..n}
      add == {it \in new : it \in S \/
                (it[2] <= it[3] /\ \E p \in 1..Len(Prods) :
                     Prods[p].name = it[1] /\ SpanSeq(S, Prods[p].rhs, it[2], it[3]))}
  IN IF add = S THEN S ELSE Closure(add)

Derivable(start) ==
  LET base == {<<input[i], i - 1, i>> : i \in 1..Len(input)}
  IN <<start, 0, Len(input)>> \in Closure(base)

----------------------------------------------------------------------------
(* Properties *)
OutcomeAllowed == phase \in {"run", "accepted", "none", "raised_parsing", "raised_action"}

\* no input token leaves the lookahead without being shifted unless an error has been reported
NoSilentDrop == (ncb = 0) => dropped = <<>>

\* the tokens shifted are a prefix of the input, in order, as long as no error was reported
ShiftedIsPrefix == (ncb = 0) => shifted = [k \in 1..Len(shifted) |-> k]

\* C05: accept only after the whole input was shifted, in order, with no error reported
AcceptSound(start) ==
  phase = "accepted" =>
     /\ ncb = 0
     /\ shifted = [k \in 1..Len(input) |-> k]
     /\ dropped = <<>>
     /\ symStack = <<"$end", start>>
     /\ Derivable(start)

\* after the error callback has been entered, no input token is shifted any more and Accept is unreachable
NoProgressAfterError ==
  [][(ncb > 0) => (shifted' = shifted /\ phase' # "accepted")]_vars

\* completeness on the explored space: a sentence is accepted (unless a grammar action raises)
SentenceAccepted(start) ==
  (phase \in {"none", "raised_parsing"}) => ~Derivable(start)

Terminates == <>(phase # "run")
=============================================================================
