----------------------------- MODULE ErrorMsgMC -----------------------------
(* All small layouts: N tokens, each preceded by 0..2 newlines and 0..2 blanks, *)
(* values of length 1..2, optionally printed 2 characters shorter than their    *)
(* source span (string tokens lose their quotes in the lexer).                  *)
EXTENDS ErrorMsg
CONSTANT N
VARIABLES lay, bad

Choice == [nl : 0..2, gap : 0..2, vlen : 1..2, shrink : {0, 2}]

RECURSIVE Toks(_, _, _, _)
Toks(l, i, end, ln) ==
  IF i > Len(l) THEN <<>>
  ELSE LET idx == end + l[i].nl + l[i].gap
           t == [ln |-> ln + l[i].nl, idx |-> idx, val |-> [j \in 1..l[i].vlen |-> 64 + i]]
       IN <<t>> \o Toks(l, i + 1, idx + l[i].vlen + l[i].shrink, ln + l[i].nl)

Init == /\ lay \in [1..N -> Choice] /\ bad \in 0..N
Next == UNCHANGED <<lay, bad>>
Spec == Init /\ [][Next]_<<lay, bad>>

ModelCaretOK == LET toks == Toks(lay, 1, 0, 1) IN CaretOK(toks, bad, ErrLoc(toks, bad))
=============================================================================
