------------------------------ MODULE Prepared ------------------------------
(***************************************************************************)
(* C12: the prepare / info / execute protocol of one planner object.       *)
(* A prepared statement has n placeholders ("holes"), numbered in TEXTUAL  *)
(* order (the order Traversal!Expected visits Parameter nodes).            *)
(*   Prepare(s)        remembers s, nothing bound                          *)
(*   Info              reports exactly n parameters                        *)
(*   Execute(vals)     |vals| # n  -> PlanningException, NOTHING changes   *)
(*                     |vals| = n  -> the plan of s with vals[i] written   *)
(*                                    in place of the i-th hole            *)
(* After a successful Execute the statement is consumed: a further Execute *)
(* may be refused (PlanningException) or planned again the same way, and   *)
(* Info may be refused or answer n -- never an internal error.             *)
(* Value lists are abstracted to their length relative to n.               *)
(***************************************************************************)
EXTENDS Naturals, Sequences, FiniteSets, TLC

CONSTANT MaxLen
VARIABLES cur,      \* 0 = nothing prepared, else the prepared statement ("A" / "B" as 1 / 2)
          consumed, \* a successful execute happened since the last prepare
          hist      \* << [act, allowed] >> : the action and the set of outcomes the contract allows

vars == <<cur, consumed, hist>>
Init == cur = 0 /\ consumed = FALSE /\ hist = <<>>

St == IF cur = 0 THEN "nothing-prepared" ELSE IF consumed THEN "consumed" ELSE "prepared"
Log(a, allowed) == hist' = Append(hist, [act |-> a, allowed |-> allowed, st |-> St])

\* (planning may refuse a statement shape it does not support: then the history is not judged further)
Prepare(s) == /\ cur' = s /\ consumed' = FALSE /\ Log(IF s = 1 THEN "prepareA" ELSE "prepareB", {"ok", "PlanningException"})
Info == /\ UNCHANGED <<cur, consumed>>
        /\ Log("info", IF cur = 0 THEN {"PlanningException"}
                        ELSE IF consumed THEN {"n", "PlanningException"} ELSE {"n"})
\* rel: "fewer" | "exact" | "more" values than holes
Execute(rel) ==
  /\ IF cur = 0 THEN /\ UNCHANGED <<cur, consumed>> /\ Log("exec-" \o rel, {"PlanningException"})
     ELSE IF consumed THEN /\ UNCHANGED <<cur, consumed>>
                           /\ Log("exec-" \o rel, IF rel = "exact" THEN {"PlanningException", "inlined-plan"}
                                                  ELSE {"PlanningException"})
     ELSE IF rel # "exact" THEN /\ UNCHANGED <<cur, consumed>> /\ Log("exec-" \o rel, {"PlanningException"})
     ELSE /\ consumed' = TRUE /\ UNCHANGED cur /\ Log("exec-exact", {"inlined-plan"})

Next == /\ Len(hist) < MaxLen
        /\ (Prepare(1) \/ Prepare(2) \/ Info \/ \E r \in {"fewer", "exact", "more"} : Execute(r))
Spec == Init /\ [][Next]_vars

\* contract-level sanity: a count mismatch never consumes the statement; nothing is planned before a prepare
NoPlanWithoutPrepare == \A i \in 1..Len(hist) : "inlined-plan" \in hist[i].allowed =>
                           \E j \in 1..(i - 1) : hist[j].act \in {"prepareA", "prepareB"}
Emit == (Len(hist) = MaxLen) => PrintT(<<"HIST", [i \in 1..Len(hist) |-> <<hist[i].act, hist[i].allowed, hist[i].st>>]>>)
=============================================================================
