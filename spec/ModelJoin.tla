------------------------------ MODULE ModelJoin ------------------------------
(***************************************************************************)
(* C14: what a table-model join may do with the WHERE clause.              *)
(* A condition is a tree over atoms  [k |-> "atom", id] | [k |-> "not", a] *)
(* | [k |-> "and", a, b] | [k |-> "or", a, b] | [k |-> "true"];            *)
(* Atoms[id] = [tab |-> "t" (data table) | "m" (model), eq |-> BOOLEAN     *)
(* (column = constant)].                                                   *)
(*   TopConj(w)      the top-level conjuncts of w                          *)
(*   AllowedPush(w)  atoms that may be pushed into the table's fetch       *)
(*   ModelArgs(w)    atoms that become model arguments and stop filtering  *)
(*   Residual(w)     what the outer filter must mean afterwards            *)
(***************************************************************************)
EXTENDS Naturals, Sequences, FiniteSets, TLC

Atoms == <<[tab |-> "t", eq |-> TRUE], [tab |-> "t", eq |-> FALSE], [tab |-> "m", eq |-> TRUE], [tab |-> "m", eq |-> TRUE],
           [tab |-> "m", eq |-> FALSE]>>
A(i) == [k |-> "atom", id |-> i]

RECURSIVE TopConj(_)
TopConj(w) == IF w.k = "and" THEN TopConj(w.a) \cup TopConj(w.b) ELSE {w}
AtomIds(S) == {x.id : x \in {y \in S : y.k = "atom"}}
AllowedPush(w) == {i \in AtomIds(TopConj(w)) : Atoms[i].tab = "t"}
ModelArgs(w) == {i \in AtomIds(TopConj(w)) : Atoms[i].tab = "m" /\ Atoms[i].eq}

RECURSIVE Subst(_, _)
Subst(w, S) == CASE w.k = "atom" -> (IF w.id \in S THEN [k |-> "true"] ELSE w)
                 [] w.k = "not" -> [k |-> "not", a |-> Subst(w.a, S)]
                 [] w.k \in {"and", "or"} -> [k |-> w.k, a |-> Subst(w.a, S), b |-> Subst(w.b, S)]
                 [] OTHER -> w
Residual(w) == Subst(w, ModelArgs(w))

\* 3-valued evaluation under a valuation of the atoms (1 true, 0 false, 2 unknown)
RECURSIVE Ev(_, _)
Ev(w, v) == CASE w.k = "atom" -> v[w.id]
              [] w.k = "true" -> 1
              [] w.k = "not" -> (LET a == Ev(w.a, v) IN IF a = 2 THEN 2 ELSE 1 - a)
              [] w.k = "and" -> (LET a == Ev(w.a, v) b == Ev(w.b, v) IN IF a = 0 \/ b = 0 THEN 0 ELSE IF a = 2 \/ b = 2 THEN 2 ELSE 1)
              [] w.k = "or" -> (LET a == Ev(w.a, v) b == Ev(w.b, v) IN IF a = 1 \/ b = 1 THEN 1 ELSE IF a = 2 \/ b = 2 THEN 2 ELSE 0)
Vals == [1..Len(Atoms) -> {0, 1, 2}]
Equivalent(w1, w2) == \A v \in Vals : (Ev(w1, v) = 1) = (Ev(w2, v) = 1)      \* same rows pass the filter

\* spec-level sanity: pushing an allowed atom and consuming model arguments is sound for a filter
PushSound(w) == \A i \in AllowedPush(w) : \A v \in Vals : Ev(w, v) = 1 => v[i] = 1

----------------------------------------------------------------------------
(* ON clauses.  In  t JOIN u ON <on> JOIN model  the condition <on> is a tree over the join equality (atom 0) and       *)
(* comparisons of u's columns with constants (atoms 6 = "u.c = 1", 7 = "u.c > 2").  A comparison may be pushed into u's *)
(* fetch only if it is a top-level conjunct of the ON clause of an INNER or LEFT join (u is then the side whose         *)
(* unmatched rows are not kept); under NOT / OR, or in a RIGHT / FULL join, nothing of the ON clause may restrict the   *)
(* fetch.  The semi-join restriction `col IN (values of the other table)` is allowed under the same condition, and only *)
(* when the equality is a top-level conjunct.                                                                          *)
OnAtomIds == {6, 7}
PushKinds == {"inner", "left"}
AllowedPushOn(on, kind) == IF kind \in PushKinds THEN {i \in AtomIds(TopConj(on)) : i \in OnAtomIds} ELSE {}
SemiJoinAllowed(on, kind) == kind \in PushKinds /\ 0 \in AtomIds(TopConj(on))
=============================================================================
