---------------------------- MODULE ModelJoinTrace ----------------------------
(* Judge the facts read off a real plan for a table-model join against ModelJoin. *)
(*  x = [w, pushed (atom ids found in the table's fetch), unknownpush (conditions  *)
(*       in the fetch that are no atom of the query), rowdict (atom ids that       *)
(*       became model arguments), rowdictother (arguments that are no equality     *)
(*       atom on the model), outer (the outer filter as a tree over the atoms)]    *)
EXTENDS ModelJoin, Json, IOUtils
Traces == JsonDeserialize(IOEnv.VERIF_TRACES)
VARIABLES tid, done
S(q) == {q[i] : i \in 1..Len(q)}
\* ON-clause records: x = [on, kind, pushed (ids of ON atoms found in the joined table's fetch), semijoin (BOOLEAN: the fetch
\* carries an IN restriction fed by the other table), unknownpush]
VerdictOn(x) ==
  (IF S(x.pushed) \subseteq AllowedPushOn(x.on, x.kind) THEN {} ELSE {"OnConditionPushedThoughNotATopLevelConjunctOfAnInnerOrLeftJoin"})
  \cup (IF x.semijoin => SemiJoinAllowed(x.on, x.kind) THEN {} ELSE {"SemiJoinRestrictionNotJustifiedByTheOnClause"})
  \cup (IF x.unknownpush = 0 THEN {} ELSE {"PushedConditionNotInQuery"})
VerdictW(x) ==
  (IF S(x.pushed) \subseteq AllowedPush(x.w) THEN {} ELSE {"PushedConditionNotATopLevelConjunctOfItsTable"})
  \cup (IF x.unknownpush = 0 THEN {} ELSE {"PushedConditionNotInQuery"})
  \cup (IF ModelArgs(x.w) \subseteq S(x.rowdict) THEN {} ELSE {"ModelArgumentMissing"})
  \cup (IF S(x.rowdict) \subseteq ModelArgs(x.w) /\ x.rowdictother = 0 THEN {} ELSE {"ModelArgumentNotATopLevelModelEquality"})
  \cup (IF Equivalent(x.outer, Residual(x.w)) THEN {} ELSE {"OuterFilterNotTheResidual"})
Verdict(x) == IF "on" \in DOMAIN x THEN VerdictOn(x) ELSE VerdictW(x)
Init == tid \in 1..Len(Traces) /\ done = FALSE
Judge == /\ ~done /\ done' = TRUE /\ UNCHANGED tid /\ PrintT(<<"ACC", tid, Verdict(Traces[tid])>>)
Spec == Init /\ [][Judge]_<<tid, done>>
=============================================================================
