SPECIFICATION Spec
CONSTANTS Raisable = {"SQLAlchemyError", "NotImplementedError"}
 Guarded = {"translate"}
CHECK_DEADLOCK FALSE
INVARIANT Contract
