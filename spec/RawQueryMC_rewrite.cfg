SPECIFICATION Spec
CONSTANTS N = 2
 Rewrite = TRUE
INVARIANT StoredVerbatim
