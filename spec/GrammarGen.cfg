SPECIFICATION Spec
CHECK_DEADLOCK FALSE
INVARIANT Emit
