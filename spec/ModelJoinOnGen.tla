---------------------------- MODULE ModelJoinOnGen ----------------------------
(* every ON clause of depth <= 2 over the join equality (atom 0) and two comparisons of the joined table (atoms 6, 7), for *)
(* the four join kinds, with the contract's answer: what may restrict the joined table's fetch                             *)
EXTENDS ModelJoin
VARIABLES on, kind
Ids == {0, 6, 7}
L0 == {A(i) : i \in Ids}
L1 == L0 \cup {[k |-> "not", a |-> x] : x \in L0}
        \cup {y \in {[k |-> o, a |-> A(i), b |-> A(j)] : o \in {"and", "or"}, i \in Ids, j \in Ids} : y.a # y.b}
RECURSIVE Used(_)
Used(x) == IF x.k = "atom" THEN {x.id} ELSE IF x.k = "not" THEN Used(x.a) ELSE IF x.k = "true" THEN {} ELSE Used(x.a) \cup Used(x.b)
L2 == L1 \cup {[k |-> "not", a |-> x] : x \in L1 \ L0}
         \cup {y \in {[k |-> o, a |-> x, b |-> A(j)] : o \in {"and", "or"}, x \in L1 \ L0, j \in Ids} : y.b.id \notin Used(y.a)}
         \cup {y \in {[k |-> o, a |-> A(j), b |-> x] : o \in {"and", "or"}, x \in L1 \ L0, j \in Ids} : y.a.id \notin Used(y.b)}
Init == on \in L2 /\ kind \in {"inner", "left", "right", "full"}
Next == UNCHANGED <<on, kind>>
Spec == Init /\ [][Next]_<<on, kind>>
\* sanity: whatever may be pushed is implied by the ON clause being true (so restricting the fetch loses no matching row)
OnVals == [Ids -> {0, 1, 2}]
RECURSIVE EvOn(_, _)
EvOn(w, v) == CASE w.k = "atom" -> v[w.id]
                [] w.k = "true" -> 1
                [] w.k = "not" -> (LET a == EvOn(w.a, v) IN IF a = 2 THEN 2 ELSE 1 - a)
                [] w.k = "and" -> (LET a == EvOn(w.a, v) b == EvOn(w.b, v) IN IF a = 0 \/ b = 0 THEN 0 ELSE IF a = 2 \/ b = 2 THEN 2 ELSE 1)
                [] w.k = "or" -> (LET a == EvOn(w.a, v) b == EvOn(w.b, v) IN IF a = 1 \/ b = 1 THEN 1 ELSE IF a = 2 \/ b = 2 THEN 2 ELSE 0)
Sound == \A i \in AllowedPushOn(on, kind) \cup (IF SemiJoinAllowed(on, kind) THEN {0} ELSE {}) : \A v \in OnVals : EvOn(on, v) = 1 => v[i] = 1
Emit == PrintT(<<"ON", kind, on, AllowedPushOn(on, kind), SemiJoinAllowed(on, kind)>>)
=============================================================================
