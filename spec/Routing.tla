------------------------------- MODULE Routing -------------------------------
(***************************************************************************)
(* C10: every table and model of a query is routed to the place its name   *)
(* resolves to.  The name-resolution contract as pure definitions, and the *)
(* obligations on the routing facts read off a real plan.                  *)
(*                                                                         *)
(* catalog = [ints |-> <<lower-case integration names>>,                   *)
(*            projects |-> <<lower-case project names>>,                   *)
(*            default |-> default namespace or "",                         *)
(*            models |-> << [ns, name] >> (lower case)]                    *)
(* A name is a sequence of parts as written (case preserved).              *)
(***************************************************************************)
EXTENDS Naturals, Integers, Sequences, FiniteSets, TLC, Json, IOUtils

Traces == JsonDeserialize(IOEnv.VERIF_TRACES)
VARIABLES tid, done

Set(s) == {s[i] : i \in 1..Len(s)}
IsDigits(codes) == codes # <<>> /\ \A i \in 1..Len(codes) : codes[i] >= 48 /\ codes[i] <= 57

\* a name is given as [parts (as written), lower (lower-cased parts), digits (per part: is it all digits?)]
\* model lookup: drop a trailing version part, name = last part, namespace = part before it or the default
ModelOf(cat, n) ==
  LET k == Len(n.lower)
      hasver == k > 1 /\ n.digits[k]
      m == IF hasver THEN k - 1 ELSE k
      name == n.lower[m]
      ns == IF m > 1 THEN n.lower[m - 1] ELSE cat.default
      hit == {i \in 1..Len(cat.models) : cat.models[i].name = name /\ cat.models[i].ns = ns}
  IN IF ns # "" /\ hit # {} THEN [is |-> TRUE, ns |-> ns, name |-> name, ver |-> IF hasver THEN n.lower[k] ELSE ""]
     ELSE [is |-> FALSE, ns |-> "", name |-> "", ver |-> ""]

\* table resolution: first part (case-insensitive) names an integration or project, else the default namespace
Resolve(cat, n) ==
  IF Len(n.lower) > 1 /\ n.lower[1] \in Set(cat.ints) \cup Set(cat.projects)
  THEN [db |-> n.lower[1], rest |-> SubSeq(n.parts, 2, Len(n.parts))]
  ELSE [db |-> cat.default, rest |-> n.parts]

\* obligations on one plan:  x = [cat, tables (occurrences in the query), cols (qualified columns of the query), fetches, applies]
\*   fetches[i] = [int, tables << names mentioned in the shipped query >>, cols << qualified column names in it >>]
\*   applies[i] = [ns, name (as a name record)]
Judge(x) ==
  LET cat == x.cat
      data == {i \in 1..Len(x.tables) : ~ModelOf(cat, x.tables[i]).is}
      models == {i \in 1..Len(x.tables) : ModelOf(cat, x.tables[i]).is}
      \* the table occurrence i is fetched from its integration with the qualifier removed
      fetched(i) == LET r == Resolve(cat, x.tables[i]) IN
                    \E f \in 1..Len(x.fetches) : x.fetches[f].int = r.db /\
                       \E t \in 1..Len(x.fetches[f].tables) : x.fetches[f].tables[t].parts = r.rest
      \* everything a fetch mentions belongs to its integration (some occurrence resolves to it, qualifier removed)
      foreign(f, t) == ~\E i \in data : LET r == Resolve(cat, x.tables[i]) IN
                          r.db = x.fetches[f].int /\ r.rest = x.fetches[f].tables[t].parts
      applied(i) == LET m == ModelOf(cat, x.tables[i]) IN
                    \E a \in 1..Len(x.applies) :
                       LET am == x.applies[a] IN
                       am.ns = m.ns /\ Len(am.name.lower) >= 1
                       /\ (IF m.ver = "" THEN am.name.lower[Len(am.name.lower)] = m.name
                           ELSE Len(am.name.lower) >= 2 /\ am.name.lower[Len(am.name.lower)] = m.ver
                                /\ am.name.lower[Len(am.name.lower) - 1] = m.name)
  IN [notfetched |-> {i \in data : Resolve(cat, x.tables[i]).db \in Set(cat.ints) /\ ~fetched(i)},
      foreign |-> {<<f, t>> \in (1..Len(x.fetches)) \X (1..8) : t <= Len(x.fetches[f].tables) /\ foreign(f, t)},
      modelshipped |-> {i \in models : \E f \in 1..Len(x.fetches) : \E t \in 1..Len(x.fetches[f].tables) :
                           x.fetches[f].tables[t].lower[Len(x.fetches[f].tables[t].lower)] = ModelOf(cat, x.tables[i]).name
                           /\ ~\E j \in data : x.tables[j].lower[Len(x.tables[j].lower)] = ModelOf(cat, x.tables[i]).name},
      \* a column the query wrote with the integration qualifier is shipped there unchanged (qualifier not removed)
      colqualified |-> {<<f, c>> \in (1..Len(x.fetches)) \X (1..12) : c <= Len(x.fetches[f].cols)
                           /\ LET col == x.fetches[f].cols[c] IN
                              Len(col.lower) >= 2 /\ col.lower[1] = x.fetches[f].int
                              /\ \E o \in 1..Len(x.cols) : x.cols[o].parts = col.parts},
      notapplied |-> {i \in models : ~applied(i)}]

Init == tid \in 1..Len(Traces) /\ done = FALSE
Step == /\ ~done /\ done' = TRUE /\ UNCHANGED tid /\ PrintT(<<"ACC", tid, Judge(Traces[tid])>>)
Spec == Init /\ [][Step]_<<tid, done>>
=============================================================================
