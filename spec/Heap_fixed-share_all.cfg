SPECIFICATION Spec
CONSTANTS Policy = "fixed-share"
 Listed = {"parts", "alias", "extra"}
CHECK_DEADLOCK FALSE
INVARIANT CopyEqual
INVARIANT Disjoint
INVARIANT OriginalUntouched
