----------------------------- MODULE QuerySpace -----------------------------
(***************************************************************************)
(* The space of predictor-free queries over a two-integration catalog      *)
(*   int1.t1(a, b)   int2.t2(a, c)   int1.t3(b, c)                         *)
(* as a product of small component sets.  The harness renders each record  *)
(* to SQL text (harness/qspace.py), plans it with the real planner and     *)
(* hands plan + original to PlanExec.                                      *)
(***************************************************************************)
EXTENDS Naturals, Sequences, FiniteSets, TLC
CONSTANT Family          \* "federated" (C08) | "single" (C11)
VARIABLE c

Kinds == {"inner", "left", "right", "full"}
Wheres == {"none", "t1b=1", "t2c=1", "t1b=1&t2c=2", "not-t2c=1", "t1b=1|t2c=2", "t1b>1", "1<t1b", "t1b-in", "t1b-null",
           "t2c-notnull", "t1b-between", "not(t1b=1&t2c=1)", "t1a=1", "t2c<2", "2>=t2c"}
Targets == {"star", "cols", "expr", "count", "groupcount", "distinct-star", "distinct-cols"}
Orders == {"none", "t1b", "t2c-desc", "t1a,t2c"}
Limits == {<<"none", "none">>, <<"1", "none">>, <<"2", "none">>, <<"1", "1">>}

Join2 == {[shape |-> "join2", kind |-> k, where |-> w, tgt |-> t, order |-> o, lim |-> l] :
            k \in Kinds, w \in Wheres, t \in Targets, o \in Orders, l \in Limits}
Join3 == {[shape |-> "join3", kind |-> k, kind2 |-> k2, on12 |-> o12, on3 |-> o3, where |-> w, tgt |-> "star", order |-> "none", lim |-> <<"none", "none">>] :
            k \in {"inner", "left"}, k2 \in {"inner", "left", "right"}, o12 \in {"t1a=t2a", "t2c=t1a", "t2c=t1b"},
            o3 \in {"t3b=t1b", "t3c=t2c", "t3b=t2a", "t3c=t2a"},
            w \in {"none", "t1b=1", "t2c=1", "t3c=1"}}
InSub == {[shape |-> "insub", neg |-> n, inner |-> i, where |-> w, tgt |-> "star", order |-> o, lim |-> l] :
            n \in BOOLEAN, i \in {"none", "c=1", "c-null"}, w \in {"none", "b=1"}, o \in {"none", "b"}, l \in {<<"none", "none">>, <<"1", "none">>}}
SetOp == {[shape |-> "setop", op |-> o, lw |-> lw, rw |-> rw] :
            o \in {"union", "union all", "intersect", "except"}, lw \in {"none", "b=1"}, rw \in {"none", "c=1"}}
\* chains of two set operations over three tables of two integrations (left-associative), every pair of kinds and ALL flags
SetOp3 == {[shape |-> "setop3", op1 |-> o1, op2 |-> o2] :
             o1 \in {"union", "union all", "intersect", "except"}, o2 \in {"union", "union all", "intersect", "except"}}
Cte == {[shape |-> "cte", kind |-> k, where |-> w, inner |-> i] : k \in {"inner", "left"}, w \in {"none", "t1b=1", "cc=1"}, i \in {"none", "c=1"}}
\* one table of an integration that is served through an API handler (class_type = api): the planner sends targets, WHERE,
\* ORDER BY and LIMIT to the handler and applies the rest in a sub-select step
Api == {[shape |-> "api", tgt |-> t, where |-> w, order |-> o, lim |-> l] :
          t \in {"star", "cols", "expr", "count", "distinct-cols"}, w \in {"none", "b=1", "b>1"}, o \in {"none", "b", "b-desc", "b-a", "2"}, l \in Limits}
\* a CTE named like a real table of another (or the same) integration that the statement also uses, qualified
CteShadow == {[shape |-> "cteshadow", use |-> u, inner |-> i] : u \in {"join", "insub", "own-source", "join-t3", "join-default"}, i \in {"none", "b>1"}}
Nested == {[shape |-> "nested", kind |-> k, where |-> w, inner |-> i] : k \in {"inner", "left"}, w \in {"none", "t2c=1", "sb=1"}, i \in {"none", "b=1", "limit1"}}
\* comma joins: the join condition (if there is one) lives in WHERE -- as a top-level conjunct, under OR, under NOT, as an
\* inequality, or not at all (a cross product); two and three tables of two integrations
Implicit == {[shape |-> "implicit", n |-> n, where |-> w, tgt |-> t] : n \in {2, 3}, t \in {"star", "cols", "count"},
               w \in {"none", "t1a=t2a", "t1a=t2a&t2c=1", "t1a=t2a|t2c=1", "not-t1a=t2a", "t1b=1&t1a=t2a", "t1b=1", "t2c=1|t1b=1",
                      "t1a<t2a", "t2a=t1a&not-t2c=1", "(t1a=t2a|t1b=1)&t2c=1", "t1a=t2a&t1b=t2c", "t1a=t2c|t1b=t2a"}}
\* ON clauses that are more than one equality: a further condition on one side, negated, disjoined, an inequality, a constant-first spelling
JoinOn == {[shape |-> "joinon", kind |-> k, on |-> o, where |-> w] : k \in Kinds, w \in {"none", "t1b=1", "t2c=1"},
             o \in {"eq&t2c=1", "eq&not-t2c=1", "not-eq", "eq|t2c=1", "eq&t1b=1", "t1a<t2a", "eq&not(t2c=1|t1b=1)", "eq&1=t2c", "eq&t2c-null", "eq&t2c-in",
                    "eq&t2c-between", "not(eq&t2c=1)"}}
Scalar == {[shape |-> "scalar", f |-> f, cmp |-> o] : f \in {"max", "min", "count"}, o \in {"=", ">"}}

\* single-integration family (C11): everything lives in int1
Single == {[shape |-> "single", body |-> b, alias |-> a] :
             b \in {"plain", "where", "join", "leftjoin", "group", "order-limit", "subquery-from", "subquery-where", "union",
                    "cte", "cte-mixedcase", "cte-only", "cast", "star-qualified", "distinct", "expr", "exists", "case-insensitive", "join3", "having",
                    "cte-chained", "cte-chained-only", "quoted-dotted-column", "exists-correlated", "in-correlated", "scalar-correlated", "exists-correlated-shadow",
                    "fromless-scalars", "union-fromless-branch", "fromless-subselect-outer-column",
                    "long-in-list-late-column-18", "long-in-list-late-column-70", "many-targets-late-qualified"},
             a \in {"none", "table-alias", "alias-is-integration-name", "column-named-like-integration", "qualified-columns"}}

Cases == IF Family = "federated" THEN Join2 \cup Join3 \cup InSub \cup SetOp \cup SetOp3 \cup Cte \cup CteShadow \cup Api \cup Nested \cup Scalar \cup Implicit \cup JoinOn ELSE Single
Init == c \in Cases
Next == UNCHANGED c
Spec == Init /\ [][Next]_c
Emit == PrintT(<<"Q", c>>)
=============================================================================
