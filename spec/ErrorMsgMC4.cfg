SPECIFICATION Spec
CONSTANT N = 4
INVARIANT ModelCaretOK
