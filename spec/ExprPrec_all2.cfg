SPECIFICATION Spec
CONSTANTS N = 2
 Mode = "all"
 Parens = "min"
INVARIANT Emit
INVARIANT PrintSane
