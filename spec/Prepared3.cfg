SPECIFICATION Spec
CONSTANT MaxLen = 3
CHECK_DEADLOCK FALSE
INVARIANT NoPlanWithoutPrepare
INVARIANT Emit
