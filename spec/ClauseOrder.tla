----------------------------- MODULE ClauseOrder -----------------------------
(***************************************************************************)
(* The clause-order checker of the SELECT grammar actions                  *)
(* (mindsdb_sql/parser/utils.py ensure_select_keyword_order and the        *)
(* `select <CLAUSE> ...` productions of the three dialects), transcribed   *)
(* as an automaton over the set of clauses already attached to the SELECT. *)
(*                                                                         *)
(* Design result checked by TLC (MODE = "mc"): the operational checker     *)
(* accepts exactly the duplicate-free clause lists in SQL order            *)
(* FROM < WHERE < GROUP BY < HAVING < ORDER BY < LIMIT < OFFSET < FOR      *)
(* UPDATE in which WHERE / GROUP BY / ORDER BY come after a FROM           *)
(* (`LIMIT a, b` counts as LIMIT and OFFSET).                              *)
(* Conformance (MODE = "trace"): every clause list up to the bound is      *)
(* written as a statement, parsed by the real dialect parsers, and the     *)
(* recorded outcome (tree + attributes set / ParsingException / other) is  *)
(* compared with the automaton's verdict.                                  *)
(***************************************************************************)
EXTENDS Naturals, Sequences, FiniteSets, TLC, Json, IOUtils

Attr == <<"FROM", "WHERE", "GROUPBY", "HAVING", "ORDERBY", "LIMIT", "OFFSET", "MODE">>
Pos(a) == CHOOSE i \in 1..Len(Attr) : Attr[i] = a
Clause == {"FROM", "WHERE", "GROUPBY", "HAVING", "ORDERBY", "LIMIT", "LIMIT2", "OFFSET", "MODE"}
Requires(a) == IF a \in {"WHERE", "GROUPBY", "ORDERBY"} THEN {"FROM"} ELSE {}

\* ensure_select_keyword_order(select, op): TRUE iff it returns without raising
Ensure(have, op) ==
    /\ op \notin have                                            \* "Duplicate <op> clause"
    /\ Requires(op) \subseteq have                               \* "<op> requires FROM"
    /\ \A i \in Pos(op)..Len(Attr) : Attr[i] \notin have         \* "<op> must go before <next>"

\* the grammar action of `select <clause>`: <<ok, have'>>
Apply(have, c) ==
    CASE c = "OFFSET" -> IF "OFFSET" \in have THEN <<FALSE, have>>                 \* "OFFSET already specified"
                         ELSE <<Ensure(have, "OFFSET"), have \cup {"OFFSET"}>>
      [] c = "LIMIT2" -> <<Ensure(have, "LIMIT"), have \cup {"LIMIT", "OFFSET"}>>
      [] OTHER        -> <<Ensure(have, c), have \cup {c}>>

RECURSIVE Run(_, _)
Run(have, cs) == IF cs = <<>> THEN <<TRUE, have>>
                 ELSE LET r == Apply(have, Head(cs)) IN IF r[1] THEN Run(r[2], Tail(cs)) ELSE <<FALSE, r[2]>>

(* ---- the language, said declaratively ---- *)
Lo(c) == IF c = "LIMIT2" THEN Pos("LIMIT") ELSE Pos(c)       \* rank a clause must exceed its predecessors with
Hi(c) == IF c = "LIMIT2" THEN Pos("OFFSET") ELSE Pos(c)      \* rank its successors must exceed
InOrder(cs) == /\ \A i \in 1..Len(cs) - 1 : Hi(cs[i]) < Lo(cs[i + 1])
               /\ \A i \in 1..Len(cs) : cs[i] \in {"WHERE", "GROUPBY", "ORDERBY"} => \E j \in 1..i - 1 : cs[j] = "FROM"

MODE == IF "VERIF_MODE" \in DOMAIN IOEnv THEN IOEnv.VERIF_MODE ELSE "mc"
MaxLen == IF "VERIF_MAXLEN" \in DOMAIN IOEnv THEN atoi(IOEnv.VERIF_MAXLEN) ELSE 4

(* ---------------- design model: all clause lists up to MaxLen ---------------- *)
VARIABLES cs, have, ok, tid, done, flags
vars == <<cs, have, ok, tid, done, flags>>

Traces == IF MODE = "trace" THEN JsonDeserialize(IOEnv.VERIF_TRACES) ELSE <<>>

InitMC == cs = <<>> /\ have = {} /\ ok = TRUE /\ tid = 0 /\ done = FALSE /\ flags = {}
Add(c) == /\ MODE = "mc" /\ ok /\ Len(cs) < MaxLen
          /\ LET r == Apply(have, c) IN ok' = r[1] /\ have' = r[2]
          /\ cs' = Append(cs, c) /\ UNCHANGED <<tid, done, flags>>
NextMC == \E c \in Clause : Add(c)

\* the operational checker and the declarative language agree on every explored list
Agreement == MODE = "mc" => (ok <=> InOrder(cs))
\* what is attached to the tree is exactly what was written
Attached == MODE = "mc" /\ ok => have = UNION {IF cs[i] = "LIMIT2" THEN {"LIMIT", "OFFSET"} ELSE {cs[i]} : i \in 1..Len(cs)}
\* Run (used by the trace mode) is the same function as stepping with Add
RunAgrees == MODE = "mc" => Run({}, cs)[1] = ok

(* ---------------- trace mode: one record per parsed statement ---------------- *)
\* Named deviation of the mindsdb and mysql grammars (not of the checker): directly after the select list the word
\* OFFSET is read as an implicit column alias (`select 1 offset` = `select 1 AS offset`), so a clause list that
\* starts with OFFSET is a syntax error there; the sqlite grammar has no such alias rule for keywords.
OffsetShadowed(dialect, l) == dialect \in {"mindsdb", "mysql"} /\ Len(l) > 0 /\ l[1] = "OFFSET"
InitTr == /\ tid \in 1..Len(Traces) /\ cs = <<>> /\ have = {} /\ ok = TRUE /\ done = FALSE /\ flags = {}
Judge == /\ MODE = "trace" /\ ~done /\ done' = TRUE
         /\ LET t == Traces[tid]
                r0 == Run({}, t.cs)
                r == IF OffsetShadowed(t.dialect, t.cs) THEN <<FALSE, r0[2]>> ELSE r0
                got == {t.attrs[i] : i \in 1..Len(t.attrs)} \ {"<pad>"}
                f == (IF t.out \notin {"tree", "ParsingException"} THEN {"InternalError"} ELSE {})
                     \cup (IF r[1] /\ t.out = "ParsingException" THEN {"RejectsOrderedList"} ELSE {})
                     \cup (IF ~r[1] /\ t.out = "tree" THEN {"AcceptsUnorderedList"} ELSE {})
                     \cup (IF r[1] /\ t.out = "tree" /\ got # r[2] THEN {"AttachedDiffers"} ELSE {})
            IN flags' = f /\ PrintT(<<"ACC", tid, f>>)
         /\ UNCHANGED <<cs, have, ok, tid>>

Init == IF MODE = "trace" THEN InitTr ELSE InitMC
Next == IF MODE = "trace" THEN Judge ELSE NextMC
Spec == Init /\ [][Next]_vars
=============================================================================
