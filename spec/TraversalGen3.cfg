SPECIFICATION Spec
CONSTANT Depth = 3
INVARIANT Emit
INVARIANT EachOnce
