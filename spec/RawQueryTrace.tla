---------------------------- MODULE RawQueryTrace ----------------------------
(* Judge what the real parser stored for an embedded query.                        *)
(*   toks   : the tokens between the parentheses as the lexer delivered them       *)
(*   stored : the stored text;  olex / slex : lexemes of the original inner text   *)
(*            and of the stored text (empty slex + slexok = 0: stored text cannot  *)
(*            even be tokenised)                                                   *)
EXTENDS RawQuery, Json, IOUtils
Traces == JsonDeserialize(IOEnv.VERIF_TRACES)
VARIABLES tid, done

FirstDiff(a, b) == IF \E i \in 1..Len(a) : i > Len(b) \/ a[i] # b[i]
                   THEN CHOOSE i \in 1..Len(a) : (i > Len(b) \/ a[i] # b[i]) /\ \A j \in 1..(i - 1) : j <= Len(b) /\ a[j] = b[j]
                   ELSE IF Len(b) > Len(a) THEN Len(a) + 1 ELSE 0

Verdict(x) ==
  <<IF x.slexok = 0 THEN "stored-text-not-lexable"
    ELSE IF x.olex = x.slex THEN "ok" ELSE "lexemes-differ",
    FirstDiff(x.olex, x.slex),
    IF x.stored = ToStr(x.toks) THEN "model-eq" ELSE "model-differs">>

Init == tid \in 1..Len(Traces) /\ done = FALSE
Judge == /\ ~done /\ done' = TRUE /\ UNCHANGED tid /\ PrintT(<<"ACC", tid, Verdict(Traces[tid])>>)
Spec == Init /\ [][Judge]_<<tid, done>>
=============================================================================
