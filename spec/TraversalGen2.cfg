SPECIFICATION Spec
CONSTANT Depth = 2
INVARIANT Emit
INVARIANT EachOnce
