------------------------------ MODULE RawQuery ------------------------------
(***************************************************************************)
(* C16: embedded queries are stored verbatim (up to whitespace/comments).  *)
(*                                                                         *)
(* tokens_to_string (mindsdb_sql/parser/utils.py) rebuilds the text of a   *)
(* raw query from token positions and token VALUES; it is transcribed here *)
(* step for step (a little machine over line_num / shift / last_pos /      *)
(* line / content).  The lexer has already rewritten the value of some     *)
(* tokens (strings lose escapes, variables lose their sigil): a token is   *)
(*   [ln, idx, val, src]   val = value after the lexer, src = as written.  *)
(* Contract: the stored text carries exactly the source lexemes, in order. *)
(***************************************************************************)
EXTENDS Naturals, Integers, Sequences, FiniteSets, TLC

SP == 32   NL == 10
Squeeze(s) == SelectSeq(s, LAMBDA c : c # SP /\ c # NL)
RECURSIVE Concat(_)
Concat(ss) == IF ss = <<>> THEN <<>> ELSE Head(ss) \o Concat(Tail(ss))
Spaces(n) == [i \in 1..(IF n > 0 THEN n ELSE 0) |-> SP]

\* one loop iteration of tokens_to_string; state st = [line_num, shift, last_pos, line, content]
StepTok(st, t) ==
  LET nl   == t.ln # st.line_num
      cont == IF nl THEN st.content \o st.line \o <<NL>> ELSE st.content
      ln0  == IF nl THEN <<>> ELSE st.line
      sh   == IF nl THEN st.last_pos + 1 ELSE st.shift
      ln1  == ln0 \o Spaces(t.idx - sh - Len(ln0)) \o t.val
  IN [line_num |-> t.ln, shift |-> sh, last_pos |-> t.idx + Len(t.val), line |-> ln1, content |-> cont]

RECURSIVE Run(_, _, _)
Run(st, toks, i) == IF i > Len(toks) THEN st ELSE Run(StepTok(st, toks[i]), toks, i + 1)

ToStr(toks) ==
  LET st0 == [line_num |-> toks[1].ln, shift |-> toks[1].idx, last_pos |-> 0, line |-> <<>>, content |-> <<>>]
      st  == Run(st0, toks, 1)
  IN st.content \o st.line

\* the contract, on layouts whose lexemes contain no blanks
Verbatim(toks, stored) == Squeeze(stored) = Concat([i \in 1..Len(toks) |-> toks[i].src])
=============================================================================
