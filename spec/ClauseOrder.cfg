SPECIFICATION Spec
INVARIANT Agreement
INVARIANT Attached
INVARIANT RunAgrees
CHECK_DEADLOCK FALSE
