SPECIFICATION Spec
CONSTANTS N = 2
 Mode = "all"
 Parens = "full"
INVARIANT Emit
INVARIANT PrintSane
