SPECIFICATION Spec
CHECK_DEADLOCK FALSE
INVARIANT TypeOK
INVARIANT OutcomeAllowed
INVARIANT AcceptSound
PROPERTY Terminates
