SPECIFICATION Spec
CONSTANT N = 3
INVARIANT SelfConsistent
INVARIANT Inert
INVARIANT Emit
