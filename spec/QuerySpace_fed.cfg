SPECIFICATION Spec
CONSTANT Family = "federated"
INVARIANT Emit
