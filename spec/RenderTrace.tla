------------------------------ MODULE RenderTrace ------------------------------
(* Judge recorded render calls: x = [flag (0/1), out ("str" | "raises"), cls, nonstr (0/1), mutated (0/1)]        *)
(* against RenderCall!Contract.                                                                                    *)
EXTENDS Naturals, Sequences, FiniteSets, TLC, Json, IOUtils
Traces == JsonDeserialize(IOEnv.VERIF_TRACES)
VARIABLES tid, done
Documented == {"SQLAlchemyError", "NotImplementedError"}
Verdict(x) ==
  (IF x.mutated = 1 THEN {"TreeMutated"} ELSE {})
  \cup (IF x.out = "str" /\ x.nonstr = 1 THEN {"ReturnsNonString"} ELSE {})
  \cup (IF x.out = "raises" /\ x.flag = 1 THEN {"RaisesWithFallbackOn"} ELSE {})
  \cup (IF x.out = "raises" /\ x.flag = 0 /\ x.cls \notin Documented THEN {"RaisesUndocumentedClass"} ELSE {})
Init == tid \in 1..Len(Traces) /\ done = FALSE
Judge == /\ ~done /\ done' = TRUE /\ UNCHANGED tid /\ PrintT(<<"ACC", tid, Verdict(Traces[tid])>>)
Spec == Init /\ [][Judge]_<<tid, done>>
=============================================================================
