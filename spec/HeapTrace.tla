------------------------------ MODULE HeapTrace ------------------------------
(* Judge the observations made on real trees / plans against the obligations of C18 *)
(* (the independence obligations are Heap!Disjoint / Heap!OriginalUntouched /        *)
(* Heap!CopyEqual observed on the real object graph).                                *)
EXTENDS Naturals, Sequences, FiniteSets, TLC, Json, IOUtils
Traces == JsonDeserialize(IOEnv.VERIF_TRACES)
VARIABLES tid, done
F(b, name) == IF b THEN {} ELSE {name}
\* a pair of objects (steps or plans from different plans / catalogs) compared both ways: equality must be symmetric and may
\* hold only between objects that are structurally the same (so also: of the same class, printing alike)
PairVerdict(x) ==
  F(x.raises = 0, "EqualityOrHashRaises") \cup
  (IF x.raises = 1 THEN {} ELSE F(x.eq = x.eq_rev, "EqualityNotSymmetric") \cup F(~(x.eq = 1 \/ x.eq_rev = 1) \/ x.same_projection = 1, "EqualButDifferent")
                                \cup F(x.same_projection = 0 \/ (x.eq = 1 /\ x.eq_rev = 1), "SameButCompareUnequal")
                                \cup F(x.trans = 1, "EqualityNotTransitive"))
Verdict(x) ==
  IF x.kind = "pair" THEN PairVerdict(x) ELSE
  IF x.kind = "tree"
  THEN F(x.raises = 0, "CopyRaises") \cup
       (IF x.raises = 1 THEN {} ELSE
          F(x.shared = 0, "SharedMutableObject") \cup F(x.equal = 1, "CopyNotEqual") \cup F(x.symmetric = 1, "EqualityNotSymmetric")
          \cup F(x.reflexive = 1, "EqualityNotReflexive") \cup F(x.same_print = 1, "CopyPrintsDifferently")
          \cup F(x.same_projection = 1, "CopyDiffersStructurally") \cup F(x.damaged = 0, "MutationOfCopyChangesOriginal")
          \cup F(x.eqprint = 0, "EqualObjectsPrintDifferently"))
  ELSE F(x.raises = 0, "EqualityOrHashRaises") \cup
       (IF x.raises = 1 THEN {} ELSE
          F(x.deterministic = 0 \/ x.plan_equal_when_built_from_equal_steps = 1, "EqualPlansCompareUnequal")
          \cup F(x.plan_reflexive = 1, "PlanEqualityNotReflexive") \cup F(x.deterministic = 0 \/ x.steps_equal = 1, "EqualStepsCompareUnequal")
          \cup F(x.steps_reflexive = 1, "StepEqualityNotReflexive") \cup F(x.plan_rebuilt_equal = 1, "PlanFromSameStepsCompareUnequal")
          \cup F(x.result_hash_total = 1, "ResultNotHashable") \cup F(x.result_eq = 1, "ResultEqualityUnlawful")
          \cup F(x.result_hash_consistent = 1, "EqualResultsHashDifferently") \cup F(x.step_copy_shares = 0, "StepCopySharesMutableObject"))
Init == tid \in 1..Len(Traces) /\ done = FALSE
Judge == /\ ~done /\ done' = TRUE /\ UNCHANGED tid /\ PrintT(<<"ACC", tid, Verdict(Traces[tid])>>)
Spec == Init /\ [][Judge]_<<tid, done>>
=============================================================================
