--------------------------- MODULE GrammarStatic ---------------------------
(* Static obligations on the grammar a dialect's tables were built from (C05): *)
(* no `error` production, start symbol not nullable, every rule has balanced   *)
(* parentheses / braces / brackets.  Evaluated by TLC on the exported grammar. *)
EXTENDS Naturals, Integers, Sequences, FiniteSets, TLC, Json, IOUtils

Data == JsonDeserialize(IOEnv.VERIF_TABLES)
VARIABLE x

Count(seq, sym) == Cardinality({k \in 1..Len(seq) : seq[k] = sym})
\* (braces and brackets are ordinary raw_query tokens in the mindsdb grammar, so only parentheses are an obligation)
Pairs == <<<<"LPAREN", "RPAREN">>>>

NoErrorProductions == \A p \in 1..Len(Data.prods) : Count(Data.prods[p].rhs, "error") = 0
StartNotNullable == "$end" \notin DOMAIN Data.action[1] /\ Data.defaulted[1] = 0
Balanced == \A p \in 1..Len(Data.prods) : \A k \in 1..Len(Pairs) :
               Count(Data.prods[p].rhs, Pairs[k][1]) = Count(Data.prods[p].rhs, Pairs[k][2])
\* every reduce/goto entry is consistent with the production list (tables really belong to this grammar)
TablesWellFormed ==
  \A s \in 1..Len(Data.action) : \A t \in DOMAIN Data.action[s] :
     LET a == Data.action[s][t] IN
       (a < 0) => (-a \in 1..Len(Data.prods))

Init == x = 0
Next == x' = x
Spec == Init /\ [][Next]_x
=============================================================================
