------------------------------ MODULE RenderCall ------------------------------
(***************************************************************************)
(* C17: one SqlalchemyRender.get_exec_params / get_string call.            *)
(*   Call(flag) -> Translate (AST -> SQLAlchemy statement)                 *)
(*              -> Compile   (statement -> text, literal binds)            *)
(*              -> Return | Caught -> Fallback (str(ast)) | Escapes(cls)   *)
(* The except clause catches SQLAlchemyError and NotImplementedError.      *)
(* Contract: with the flag on the call never raises; with it off it raises *)
(* only the two documented classes; the tree is never changed.             *)
(* Raisable = the exception classes translation / compilation can raise;   *)
(* Guarded = the phases that sit inside the try block.                     *)
(***************************************************************************)
EXTENDS Naturals, Sequences, FiniteSets, TLC
CONSTANTS Raisable, Guarded
VARIABLES pc, flag, exc, excAt, out, tree
vars == <<pc, flag, exc, excAt, out, tree>>
Documented == {"SQLAlchemyError", "NotImplementedError"}

Init == pc = "call" /\ flag \in BOOLEAN /\ exc = "" /\ excAt = "" /\ out = "" /\ tree = "T"
Phase(p, nxt) == /\ pc = p
                 /\ \/ (pc' = nxt /\ UNCHANGED <<exc, excAt>>)
                    \/ (\E c \in Raisable : exc' = c /\ excAt' = p /\ pc' = "raised")
                 /\ UNCHANGED <<flag, out, tree>>
Call == pc = "call" /\ pc' = "translate" /\ UNCHANGED <<flag, exc, excAt, out, tree>>
Translate == Phase("translate", "compile")
Compile == Phase("compile", "return")
Return == pc = "return" /\ out' = "rendered" /\ pc' = "done" /\ UNCHANGED <<flag, exc, excAt, tree>>
\* except (SQLAlchemyError, NotImplementedError): only for phases inside the try block
Caught == exc \in Documented /\ excAt \in Guarded
Fallback == pc = "raised" /\ Caught /\ flag /\ out' = "own-sql-string" /\ pc' = "done" /\ UNCHANGED <<flag, exc, excAt, tree>>
Escapes == pc = "raised" /\ ~(Caught /\ flag) /\ out' = "raises:" \o exc /\ pc' = "done" /\ UNCHANGED <<flag, exc, excAt, tree>>
Next == Call \/ Translate \/ Compile \/ Return \/ Fallback \/ Escapes
Spec == Init /\ [][Next]_vars /\ WF_vars(Next)

Contract == pc = "done" =>
              /\ (flag => out \in {"rendered", "own-sql-string"})
              /\ (~flag => out \in {"rendered"} \cup {"raises:" \o c : c \in Documented})
              /\ tree = "T"
Terminates == <>(pc = "done")
=============================================================================
