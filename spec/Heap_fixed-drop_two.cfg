SPECIFICATION Spec
CONSTANTS Policy = "fixed-drop"
 Listed = {"parts", "alias"}
CHECK_DEADLOCK FALSE
INVARIANT CopyEqual
INVARIANT Disjoint
INVARIANT OriginalUntouched
