SPECIFICATION Spec
CONSTANT N = 5
INVARIANT Sane
INVARIANT Emit
