----------------------------- MODULE CallsTrace -----------------------------
(* The combined event log of real threads (order = the order in which the     *)
(* sink admitted the events, under its lock) is replayed; every instance      *)
(* (lexer/parser/planner/renderer object) must have one owning call for as    *)
(* long as that call is in flight (Calls!OwnerExclusive).  This catches       *)
(* instance sharing even when the results happen to agree.                    *)
EXTENDS Naturals, Sequences, FiniteSets, TLC, Json, IOUtils
Traces == JsonDeserialize(IOEnv.VERIF_TRACES)
VARIABLES tid, l, owned, ended, flags, done

Tr == Traces[tid]
Ev == Tr.events[l]
Init == /\ tid \in 1..Len(Traces) /\ l = 1 /\ owned = {} /\ ended = {} /\ flags = {} /\ done = FALSE

\* owned: set of <<instance, call>> pairs of calls in flight
Step ==
  /\ ~done /\ l <= Len(Tr.events) /\ l' = l + 1 /\ UNCHANGED <<tid, done>>
  /\ CASE Ev.e = "use" ->
            /\ Ev.c \notin ended
            /\ owned' = owned \cup {<<Ev.i, Ev.c>>}
            /\ flags' = flags \cup (IF \E o \in owned : o[1] = Ev.i /\ o[2] # Ev.c THEN {"InstanceShared"} ELSE {})
            /\ UNCHANGED ended
       [] Ev.e = "end" ->
            /\ Ev.c \notin ended
            /\ ended' = ended \cup {Ev.c}
            /\ owned' = {o \in owned : o[2] # Ev.c}
            /\ flags' = flags \cup (IF Ev.same = 0 THEN {"ResultDiffers"} ELSE {})
Finish == /\ ~done /\ l = Len(Tr.events) + 1 /\ owned = {} /\ done' = TRUE
          /\ PrintT(<<"ACC", tid, flags>>) /\ UNCHANGED <<tid, l, owned, ended, flags>>
Spec == Init /\ [][Step \/ Finish]_<<tid, l, owned, ended, flags, done>>
=============================================================================
