SPECIFICATION Spec
CONSTANT MaxCand = 21
CONSTANT InternalPossible = FALSE
CHECK_DEADLOCK FALSE
INVARIANT OutcomeAllowed
INVARIANT TreeOnlyIfAccepted
INVARIANT NestedBudget
INVARIANT ReportAlwaysRaisesParsing
PROPERTY Terminates
