------------------------------ MODULE TSWindow ------------------------------
(***************************************************************************)
(* C15: the rows a time-series model must receive.                         *)
(* spec = [window, tcol, gcols, op, v, v2, pf]                             *)
(*   op in  ">" ">=" "=" "<" "<=" "between" ">latest" "=latest" "none"     *)
(*   pf = << <<column, value>> >>  the user's partition filters            *)
(* For every partition value occurring in the data selected by the         *)
(* non-time filters:  every row satisfying the time condition, plus the    *)
(* `window` most recent rows before its lower bound (for > LATEST or an    *)
(* exact time: just the most recent `window` rows up to that point); only  *)
(* rows with a non-null order value, restricted by the partition filters.  *)
(* Rows that tie at the window boundary may be chosen freely: Admissible   *)
(* is a SET of bags (as canonical sequences).                              *)
(***************************************************************************)
EXTENDS Naturals, Integers, Sequences, FiniteSets, TLC
LOCAL INSTANCE SQLSem

Col(cols, name) == CHOOSE i \in 1..Len(cols) : cols[i] = name
PassPF(cols, row, pf) == \A k \in 1..Len(pf) : row[Col(cols, pf[k][1])] = pf[k][2]

Cond(sp, t) == CASE sp.op = ">" -> t > sp.v [] sp.op = ">=" -> t >= sp.v [] sp.op = "<" -> t < sp.v
                 [] sp.op = "<=" -> t <= sp.v [] sp.op = "between" -> t >= sp.v /\ t <= sp.v2
                 [] sp.op = "none" -> TRUE [] OTHER -> FALSE        \* "=", ">latest", "=latest": window rows only
\* rows eligible for the context window (strictly before the lower bound; up to the point for "=" / LATEST)
Before(sp, t) == CASE sp.op = ">" -> t <= sp.v [] sp.op = ">=" -> t < sp.v [] sp.op = "between" -> t < sp.v
                   [] sp.op = "=" -> t <= sp.v [] sp.op \in {">latest", "=latest"} -> TRUE [] OTHER -> FALSE

\* all ways to take the w most recent rows of `rows` (sequence), ties at the cut chosen freely
MostRecent(rows, ti, w) ==
  LET n == Len(rows)
      k == IF w > n THEN n ELSE w
      Good(T) == /\ Cardinality(T) = k
                 /\ \A i \in T, j \in (1..n) \ T : rows[i][ti] >= rows[j][ti]
  IN {T \in SUBSET (1..n) : Good(T)}
Pick(rows, T) == [m \in 1..Cardinality(T) |-> rows[CHOOSE p \in T : Cardinality({x \in T : x < p}) = m - 1]]

\* admissible inputs for one partition (rows already restricted to it)
PartAdm(sp, cols, P) ==
  LET ti == Col(cols, sp.tcol)
      c == SelectSeq(P, LAMBDA r : Cond(sp, r[ti]))
      b == SelectSeq(P, LAMBDA r : Before(sp, r[ti]))
  IN {c \o Pick(b, T) : T \in MostRecent(b, ti, sp.window)}

RECURSIVE Prod(_)
Prod(sets) == IF sets = <<>> THEN {<<>>} ELSE {a \o b : a \in Head(sets), b \in Prod(Tail(sets))}

Admissible(sp, cols, rows) ==
  LET ti == Col(cols, sp.tcol)
      sel == SelectSeq(rows, LAMBDA r : PassPF(cols, r, sp.pf))             \* selected by the non-time filters
      base == SelectSeq(sel, LAMBDA r : r[ti] # NULL)
      gi == [k \in 1..Len(sp.gcols) |-> Col(cols, sp.gcols[k])]
      keyOf(r) == [k \in 1..Len(gi) |-> r[gi[k]]]
      keys == Dedup([i \in 1..Len(sel) |-> keyOf(sel[i])])
      parts == IF sp.gcols = <<>> THEN <<base>>
               ELSE [p \in 1..Len(keys) |-> SelectSeq(base, LAMBDA r : keyOf(r) = keys[p] /\ \A k \in 1..Len(gi) : r[gi[k]] # NULL)]
  IN {Canon(x) : x \in Prod([p \in 1..Len(parts) |-> PartAdm(sp, cols, parts[p])])}
=============================================================================
