------------------------------ MODULE PlanTrace ------------------------------
(***************************************************************************)
(* C09: every emitted plan is a well-formed, forward-only dataflow program.*)
(* A plan is projected (harness/project.py plan_proj, by reflection) to    *)
(*   steps[i] = [num, kind, refs, sub]                                     *)
(* where num and every ref are pairs <<top, sub>>: <<n, -1>> is the result *)
(* of top-level step n, <<n, k>> the result of sub-step k of container n,  *)
(* <<-1, -1>> "no number".  refs holds EVERY Result reachable from the     *)
(* step's fields, including those embedded in queries (IN <result>).       *)
(***************************************************************************)
EXTENDS Naturals, Integers, Sequences, FiniteSets, TLC, Json, IOUtils

Traces == JsonDeserialize(IOEnv.VERIF_TRACES)
VARIABLES tid, done

\* top-level steps are numbered consecutively in list order
Numbered(P) == \A i \in 1..Len(P) : P[i].num = <<i - 1, -1>>

\* references of the top-level step at list position i (0-based number p = i-1)
TopRefsOK(P, i) == \A r \in {P[i].refs[k] : k \in 1..Len(P[i].refs)} : r[2] = -1 /\ r[1] >= 0 /\ r[1] < i - 1
\* references of sub-step j of the container at position i: an earlier top-level step or an earlier sibling
SubRefsOK(P, i) ==
  \A j \in 1..Len(P[i].sub) : \A r \in {P[i].sub[j].refs[k] : k \in 1..Len(P[i].sub[j].refs)} :
     \/ (r[2] = -1 /\ r[1] >= 0 /\ r[1] < i - 1)
     \/ (r[1] = i - 1 /\ r[2] >= 0 /\ r[2] < j - 1)
ForwardOnly(P) == \A i \in 1..Len(P) : TopRefsOK(P, i) /\ SubRefsOK(P, i)

\* every result except the last one is consumed by a later step: the last step produces the answer
AllRefs(P, i) == {P[i].refs[k] : k \in 1..Len(P[i].refs)}
                 \cup UNION {{P[i].sub[j].refs[k] : k \in 1..Len(P[i].sub[j].refs)} : j \in 1..Len(P[i].sub)}
Effectful == {"InsertToTable", "UpdateToTable", "DeleteStep", "SaveToTable", "CreateTableStep"}
LastIsAnswer(P) == P # <<>> /\ \A i \in 1..(Len(P) - 1) :
                      P[i].kind \in Effectful \/ \E m \in (i + 1)..Len(P) : <<i - 1, -1>> \in AllRefs(P, m)

Verdict(P) == (IF Numbered(P) THEN {} ELSE {"NotNumbered"})
              \cup (IF ForwardOnly(P) THEN {} ELSE {"NotForwardOnly"})
              \cup (IF LastIsAnswer(P) THEN {} ELSE {"LastIsNotTheAnswer"})

Init == tid \in 1..Len(Traces) /\ done = FALSE
Judge == /\ ~done /\ done' = TRUE /\ UNCHANGED tid /\ PrintT(<<"ACC", tid, Verdict(Traces[tid].steps)>>)
Spec == Init /\ [][Judge]_<<tid, done>>
=============================================================================
