SPECIFICATION Spec
CONSTANTS Threads = {1, 2, 3}
 Policy = "Fresh"
 Steps = 2
CHECK_DEADLOCK FALSE
INVARIANT Isolation
INVARIANT OwnerExclusive
INVARIANT Emit
PROPERTY Terminates
