SPECIFICATION Spec
CONSTANT Family = "single"
INVARIANT Emit
