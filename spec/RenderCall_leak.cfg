SPECIFICATION Spec
CONSTANTS Raisable = {"SQLAlchemyError", "NotImplementedError", "KeyError"}
 Guarded = {"translate", "compile"}
CHECK_DEADLOCK FALSE
INVARIANT Contract
