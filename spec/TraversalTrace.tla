--------------------------- MODULE TraversalTrace ---------------------------
(* Judge recorded runs of the real query_traversal.                            *)
(*   kind "visit"  : t, got  -> Judge(t, got)                                   *)
(*   kind "replace": t, target (id of the k-th visited node), after (projected  *)
(*                   tree after the run) -> after = Replace(t, target)          *)
(*   mv = number of times the visitor was called on a node it had returned      *)
(*        itself (a replacement is part of the result, it is never visited)     *)
EXTENDS Traversal, Json, IOUtils
Traces == JsonDeserialize(IOEnv.VERIF_TRACES)
VARIABLES tid, done

\* representation-independent form: slots without children are dropped
RECURSIVE Norm(_)
Norm(t) == [k |-> t.k, id |-> t.id,
            ch |-> LET nz == SelectSeq(t.ch, LAMBDA c : c[2] # <<>>)
                   IN [i \in 1..Len(nz) |-> <<nz[i][1], [m \in 1..Len(nz[i][2]) |-> Norm(nz[i][2][m])]>>]]

Verdict(x) ==
  IF x.kind = "visit" THEN <<"visit", Judge(x.t, x.got)>>
  ELSE IF x.kind = "params" THEN <<"params", ParamJudge(x.t, x.got), ParamOrder(x.t)>>
  ELSE IF x.kind = "replace2"
  THEN <<"replace2", IF x.mv > 0 THEN "replacement-visited"
                     ELSE IF Norm(x.after) = Norm(ReplaceMany(x.t, x.repl)) THEN "ok" ELSE "replace-scope">>
  ELSE <<"replace", IF x.mv > 0 THEN "replacement-visited"
                    ELSE IF Norm(x.after) = Norm(Replace(x.t, x.target)) THEN "ok"
                    ELSE IF Norm(x.after) = Norm(x.t) THEN "replace-ignored" ELSE "replace-scope">>

Init == tid \in 1..Len(Traces) /\ done = FALSE
JudgeStep == /\ ~done /\ done' = TRUE /\ UNCHANGED tid
             /\ PrintT(<<"ACC", tid, Verdict(Traces[tid])>>)
Spec == Init /\ [][JudgeStep]_<<tid, done>>

\* the schema, printed once for the harness (single source of truth for the projection)
ASSUME PrintT(<<"SCHEMA", [k \in Kinds |-> [i \in 1..Len(Schema[k]) |->
                  <<Schema[k][i].name, Schema[k][i].shape>>]]>>)
=============================================================================
