SPECIFICATION Spec
CONSTANTS N = 1
 Mode = "all"
 Parens = "min"
INVARIANT Emit
INVARIANT PrintSane
