---------------------------- MODULE ParseSqlTrace ----------------------------
(* code -> spec for one parse_sql call: the call-level events recorded by the   *)
(* harness (wrappers around ErrorHandling and the driver-run outcomes from the  *)
(* sly sink) must be a behaviour of ParseSql; its invariants are evaluated at   *)
(* every recorded step.  Unlogged values (number of candidates, whether they    *)
(* are tried) are chosen by TLC.                                                *)
EXTENDS Naturals, Sequences, FiniteSets, TLC, Json, IOUtils

Traces == JsonDeserialize(IOEnv.VERIF_TRACES)

VARIABLES stage, cbkind, first, ncand, k, nested, final, tid, l, flags, done

P == INSTANCE ParseSql WITH MaxCand <- 40, InternalPossible <- TRUE
tvars == <<stage, cbkind, first, ncand, k, nested, final, tid, l, flags, done>>

Tr == Traces[tid]
Ev == Tr.events[l]
Is(e) == l <= Len(Tr.events) /\ Ev.e = e

TraceInit == /\ tid \in 1..Len(Traces) /\ l = 1 /\ flags = {} /\ done = FALSE
             /\ P!Init(Traces[tid].cb)

Monitors ==
  flags' = flags
    \cup (IF ~P!OutcomeAllowed' THEN {"OutcomeAllowed"} ELSE {})
    \cup (IF ~P!TreeOnlyIfAccepted' THEN {"TreeOnlyIfAccepted"} ELSE {})
    \cup (IF ~P!NestedBudget' THEN {"NestedBudget"} ELSE {})
    \cup (IF ~P!ReportAlwaysRaisesParsing' THEN {"ReportAlwaysRaisesParsing"} ELSE {})

TFirst   == Is("first") /\ P!FirstRun(Ev.o)
TProcess == Is("process_begin") /\ P!ProcessBegin
TOpaque  == Is("opaque_report") /\ P!OpaqueReport
TEmpty   == Is("empty") /\ P!EmptyInput
TLoc     == Is("loc_done") /\ P!LocDone
TSugg    == Is("sugg_begin") /\ (P!SuggBegin(0, FALSE) \/ \E n \in 2..19 : P!SuggBegin(n, TRUE))
TNested  == Is("nested") /\ (P!TryInsert(Ev.o) \/ P!TryReplace(Ev.o))
TSuggEnd == Is("sugg_end") /\ (P!SuggEnd \/ (stage = "reported" /\ UNCHANGED <<stage, cbkind, first, ncand, k, nested, final>>))
TRaises  == Is("reporter_raises") /\ P!ReporterRaises
TFinal   == Is("final") /\ (P!ReturnTree \/ P!Propagate \/ P!RaiseReported \/ P!Leak) /\ final' = Ev.o

Step == /\ ~done
        /\ (TFirst \/ TProcess \/ TOpaque \/ TEmpty \/ TLoc \/ TSugg \/ TNested \/ TSuggEnd \/ TRaises \/ TFinal)
        /\ l' = l + 1 /\ Monitors /\ UNCHANGED <<tid, done>>

Finish == /\ ~done /\ l = Len(Tr.events) + 1 /\ stage = "done"
          /\ done' = TRUE
          /\ PrintT(<<"ACC", tid, final, flags>>)
          /\ UNCHANGED <<stage, cbkind, first, ncand, k, nested, final, tid, l, flags>>

TraceSpec == TraceInit /\ [][Step \/ Finish]_tvars
=============================================================================
