SPECIFICATION Spec
CHECK_DEADLOCK FALSE
INVARIANT TypeOK
INVARIANT OutcomeAllowed
PROPERTY Terminates
