----------------------------- MODULE PlanBuilder -----------------------------
(***************************************************************************)
(* C09, design half: the join-sequence / partition algorithm of            *)
(* mindsdb_sql/planner/plan_join.py (PlanJoinTablesQuery.plan_join_tables, *)
(* add_plan_step, add_step_to_partition, close_partition) transcribed at   *)
(* the level of step skeletons.  Written to be bound: it models what the   *)
(* code does, including the branch of add_plan_step that lets a step that  *)
(* cannot be partitioned slip into the plan while a partition is open.     *)
(*                                                                         *)
(* Items of a join sequence:  "T" table, "Ts" table whose ON clause links  *)
(* it to an already fetched table (semi-join filter: an extra DISTINCT     *)
(* sub-select step), "M" model, "Mp" model with partition_size, "J" join.  *)
(* A ref is <<n, -1>> (top-level step n) or <<n, k>> (sub-step k of n).    *)
(***************************************************************************)
EXTENDS Naturals, Integers, Sequences, FiniteSets, TLC

CONSTANTS MaxItems,
          CloseFirst   \* TRUE: a step that cannot be partitioned closes the open partition first (the code as
                       \* repaired); FALSE: it falls through to plan.add_step with the partition still open
VARIABLES seq0,     \* the join sequence as chosen in Init (never changes)
          seq,      \* the join sequence being processed
          i,        \* next item
          steps,    \* top-level step skeletons [num, kind, refs, sub]
          stack,    \* step_stack: refs of intermediate results
          part      \* 0 = no open partition, else list position of the open MapReduceStep

vars == <<seq0, seq, i, steps, stack, part>>
Tab == {"T", "Ts", "M", "Mp"}
\* table1, table2, join, (table, join)*
RECURSIVE Ext(_)
Ext(n) == IF n = 0 THEN {<<>>} ELSE {s \o <<t, "J">> : s \in Ext(n - 1), t \in Tab}
Seqs == UNION {{<<a, b, "J">> \o s : a \in {"T"}, b \in Tab, s \in Ext(n)} : n \in 0..(MaxItems - 2)}

Step(num, kind, refs) == [num |-> num, kind |-> kind, refs |-> refs, sub |-> <<>>]
Top(n) == <<n, -1>>
Last(s) == s[Len(s)]

\* plan.add_step
AddTop(kind, refs) == steps' = Append(steps, Step(Top(Len(steps)), kind, refs))
\* add_step_to_partition: numbered "<n>_<k>"
AddSub(kind, refs) ==
  LET p == steps[part] k == Len(p.sub) IN
  steps' = [steps EXCEPT ![part].sub = Append(@, Step(<<p.num[1], k>>, kind, refs))]

\* add_plan_step(step, partition_size): returns the ref of the added step in `r`
\* (1) partition open and step partitionable -> into the partition
\* (2) partition open, step NOT partitionable  -> CloseFirst: close_partition, then plan.add_step
\*                                               ~CloseFirst: falls through to plan.add_step, partition stays open
\* (3) no partition, partition_size given      -> open a MapReduceStep, step becomes its first sub-step
\* (4) otherwise close_partition (a no-op here) and plan.add_step
AddPlanStep(kind, refs, psize, r) ==
  IF part # 0 /\ kind \in {"Join", "Apply"}
  THEN /\ AddSub(kind, refs) /\ r = <<steps[part].num[1], Len(steps[part].sub)>> /\ UNCHANGED part
  ELSE IF part # 0
  THEN /\ AddTop(kind, refs) /\ r = Top(Len(steps)) /\ part' = (IF CloseFirst THEN 0 ELSE part)
  ELSE IF psize
  THEN /\ steps' = Append(steps, [num |-> Top(Len(steps)), kind |-> "MapReduce", refs |-> refs,
                                  sub |-> <<Step(<<Len(steps), 0>>, kind, refs)>>])
       /\ part' = Len(steps) + 1 /\ r = <<Len(steps), 0>>
  ELSE /\ AddTop(kind, refs) /\ r = Top(Len(steps)) /\ UNCHANGED part

\* close_partition as a side effect of add_plan_step: the stack top becomes the partition container
Closing(kind) == part # 0 /\ kind \notin {"Join", "Apply"} /\ CloseFirst
Base(kind) == IF Closing(kind) /\ stack # <<>> THEN [stack EXCEPT ![Len(stack)] = steps[part].num] ELSE stack

Init == /\ seq \in Seqs /\ seq0 = seq /\ i = 1 /\ steps = <<>> /\ stack = <<>> /\ part = 0

Item == seq[i]
\* process_table: (optional DISTINCT sub-select on an earlier fetch, through add_plan_step) then the fetch
ProcTable ==
  /\ i <= Len(seq) /\ Item = "T"
  /\ \E r \in {Top(Len(steps))} \cup {<<a, b>> : a \in 0..8, b \in 0..8} :
        AddPlanStep("Fetch", <<>>, FALSE, r) /\ stack' = Append(Base("Fetch"), r)
  /\ i' = i + 1 /\ UNCHANGED seq
\* a table with a semi-join filter takes two add_plan_step calls; modelled as two items: "Ts" = sub-select, then fetch
ProcTableSemi ==
  /\ i <= Len(seq) /\ Item = "Ts"
  /\ LET firstFetch == CHOOSE n \in 1..Len(steps) : steps[n].kind = "Fetch" /\ \A m \in 1..(n - 1) : steps[m].kind # "Fetch" IN
     \E r \in {Top(Len(steps))} \cup {<<a, b>> : a \in 0..8, b \in 0..8} :
        /\ AddPlanStep("SubSelect", <<steps[firstFetch].num>>, FALSE, r)
        /\ seq' = [seq EXCEPT ![i] = "Tf"] /\ stack' = Base("SubSelect") /\ UNCHANGED i
ProcTableAfterSemi ==
  /\ i <= Len(seq) /\ Item = "Tf"
  /\ \E r \in {Top(Len(steps))} \cup {<<a, b>> : a \in 0..8, b \in 0..8} :
        AddPlanStep("Fetch", <<Last(steps).num>>, FALSE, r) /\ stack' = Append(Base("Fetch"), r)
  /\ i' = i + 1 /\ UNCHANGED seq
\* process_predictor: dataframe = step_stack[-1].result
ProcModel ==
  /\ i <= Len(seq) /\ Item \in {"M", "Mp"} /\ stack # <<>>
  /\ \E r \in {Top(Len(steps))} \cup {<<a, b>> : a \in 0..8, b \in 0..8} :
        AddPlanStep("Apply", <<Last(stack)>>, Item = "Mp", r) /\ stack' = Append(stack, r)
  /\ i' = i + 1 /\ UNCHANGED seq
ProcJoin ==
  /\ i <= Len(seq) /\ Item = "J" /\ Len(stack) >= 2
  /\ LET right == stack[Len(stack)] left == stack[Len(stack) - 1] rest == SubSeq(stack, 1, Len(stack) - 2) IN
     \E r \in {Top(Len(steps))} \cup {<<a, b>> : a \in 0..8, b \in 0..8} :
        AddPlanStep("Join", <<left, right>>, FALSE, r) /\ stack' = Append(rest, r)
  /\ i' = i + 1 /\ UNCHANGED seq
\* close_partition at the end: the stack top becomes the partition container; then the result is popped
Finish ==
  /\ i = Len(seq) + 1
  /\ stack' = IF part # 0 /\ stack # <<>> THEN [stack EXCEPT ![Len(stack)] = steps[part].num] ELSE stack
  /\ part' = 0 /\ i' = i + 1 /\ UNCHANGED <<seq, steps>>

Next == (ProcTable \/ ProcTableSemi \/ ProcTableAfterSemi \/ ProcModel \/ ProcJoin \/ Finish) /\ UNCHANGED seq0
Spec == Init /\ [][Next]_vars

----------------------------------------------------------------------------
Done == i = Len(seq) + 2
TopRefsOK(n) == \A k \in 1..Len(steps[n].refs) : LET r == steps[n].refs[k] IN r[2] = -1 /\ r[1] < n - 1
SubRefsOK(n) == \A j \in 1..Len(steps[n].sub) : \A k \in 1..Len(steps[n].sub[j].refs) :
                  LET r == steps[n].sub[j].refs[k] IN (r[2] = -1 /\ r[1] < n - 1) \/ (r[1] = n - 1 /\ r[2] >= 0 /\ r[2] < j - 1)
Numbered == \A n \in 1..Len(steps) : steps[n].num = Top(n - 1)
ForwardOnly == Done => \A n \in 1..Len(steps) : TopRefsOK(n) /\ SubRefsOK(n)
\* the result handed back (and consumed by the outer QueryStep) is the last top-level step
LastIsAnswer == Done => (stack # <<>> /\ Last(stack) = Top(Len(steps) - 1))
Emit == Done => PrintT(<<"BUILT", seq0, [n \in 1..Len(steps) |-> <<steps[n].kind, steps[n].refs,
                                         [j \in 1..Len(steps[n].sub) |-> <<steps[n].sub[j].kind, steps[n].sub[j].refs>>]>>],
                         ForwardOnly, LastIsAnswer>>)
=============================================================================
