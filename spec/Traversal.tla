----------------------------- MODULE Traversal -----------------------------
(***************************************************************************)
(* C13: the contract of the documented AST walker query_traversal.         *)
(*                                                                         *)
(* Schema gives, for every statement / expression node kind, its child     *)
(* slots IN TEXTUAL ORDER, with the shape of the slot and whether nodes in *)
(* it stand in table position / are select-list items.  A tree is          *)
(*   [k |-> kind, id |-> n, ch |-> << <<slotname, <<children>> >>, ... >>] *)
(* (the harness projects real trees into this form using Schema itself,    *)
(* which TLC prints for it, so there is one source of truth).              *)
(*                                                                         *)
(* Pre(t) is the visit sequence the contract demands (pre-order, slots in  *)
(* textual order).  A recorded real visit sequence is judged against it:   *)
(* every node exactly once, siblings in order, flags right; and for a      *)
(* visitor that returns a replacement at the k-th visit the resulting tree *)
(* must be Replace(t, id).                                                 *)
(***************************************************************************)
EXTENDS Naturals, Integers, Sequences, FiniteSets, TLC

Slot(n, s, tb, tg) == [name |-> n, shape |-> s, table |-> tb, target |-> tg]
One(n) == Slot(n, "one", FALSE, FALSE)
List(n) == Slot(n, "list", FALSE, FALSE)
Tab(n) == Slot(n, "one", TRUE, FALSE)
Args == <<List("args")>>

Schema ==
  [Select |-> <<Slot("cte", "ctes", FALSE, FALSE), Slot("targets", "list", FALSE, TRUE), Tab("from_table"),
                One("where"), List("group_by"), One("having"), List("order_by")>>,
   Union |-> <<One("left"), One("right")>>,
   Intersect |-> <<One("left"), One("right")>>,
   Except |-> <<One("left"), One("right")>>,
   Join |-> <<Tab("left"), Tab("right"), One("condition")>>,
   BinaryOperation |-> Args, UnaryOperation |-> Args, BetweenOperation |-> Args,
   Exists |-> Args, NotExists |-> Args,
   Function |-> <<List("args"), One("from_arg")>>,
   WindowFunction |-> <<One("function"), List("partition"), List("order_by")>>,
   TypeCast |-> <<One("arg")>>,
   Tuple |-> <<List("items")>>,
   Insert |-> <<Tab("table"), Slot("values", "rows", FALSE, FALSE), One("from_select")>>,
   Update |-> <<Tab("table"), Slot("update_columns", "dictvals", FALSE, FALSE), One("from_select"), One("where")>>,
   Delete |-> <<Tab("table"), One("where")>>,
   CreateTable |-> <<Tab("name"), One("from_select")>>,
   OrderBy |-> <<One("field")>>,
   Case |-> <<One("arg"), Slot("rules", "rules", FALSE, FALSE), One("default")>>]

Kinds == DOMAIN Schema
SlotFlags(kind, slotname) ==
  IF kind \in Kinds /\ \E i \in 1..Len(Schema[kind]) : Schema[kind][i].name = slotname
  THEN LET i == CHOOSE j \in 1..Len(Schema[kind]) : Schema[kind][j].name = slotname
       IN <<Schema[kind][i].table, Schema[kind][i].target>>
  ELSE <<FALSE, FALSE>>

----------------------------------------------------------------------------
\* visit record: id, expected flags, parent id and the input-side coordinate (parent kind, slot)
V(t, tb, tg, pk, sl, pid) == [id |-> t.id, k |-> t.k, table |-> tb, target |-> tg, pk |-> pk, slot |-> sl, pid |-> pid]

RECURSIVE Pre(_, _, _, _, _, _), PreSeq(_, _, _, _, _, _), PreSlots(_, _, _)
Pre(t, tb, tg, pk, sl, pid) == <<V(t, tb, tg, pk, sl, pid)>> \o PreSlots(t, t.ch, 1)
PreSlots(t, ch, i) ==
  IF i > Len(ch) THEN <<>>
  ELSE LET f == SlotFlags(t.k, ch[i][1]) IN PreSeq(ch[i][2], f[1], f[2], t.k, ch[i][1], t.id) \o PreSlots(t, ch, i + 1)
PreSeq(ts, tb, tg, pk, sl, pid) ==
  IF ts = <<>> THEN <<>> ELSE Pre(Head(ts), tb, tg, pk, sl, pid) \o PreSeq(Tail(ts), tb, tg, pk, sl, pid)

Expected(t) == Pre(t, FALSE, FALSE, "root", "root", -1)

\* the tree after "replace the node with identity id by the marker leaf"
Marker == [k |-> "Marker", id |-> 0, ch |-> <<>>]
RECURSIVE Replace(_, _), ReplaceSeq(_, _), ReplaceSlots(_, _)
Replace(t, id) == IF t.id = id THEN Marker ELSE [k |-> t.k, id |-> t.id, ch |-> ReplaceSlots(t.ch, id)]
ReplaceSlots(ch, id) == [i \in 1..Len(ch) |-> <<ch[i][1], ReplaceSeq(ch[i][2], id)>>]
ReplaceSeq(ts, id) == [i \in 1..Len(ts) |-> Replace(ts[i], id)]

\* several replacements in one run; the visitor may answer a select-list item with a LIST of nodes, which is
\* spliced in place.  repl is a sequence of <<id, <<marker numbers>>>>; marker n is the leaf with id -n.
MarkerN(n) == [k |-> "Marker", id |-> 0 - n, ch |-> <<>>]
ReplFor(repl, id) == LET hit == SelectSeq(repl, LAMBDA r : r[1] = id) IN IF hit = <<>> THEN <<>> ELSE hit[1][2]
RECURSIVE ReplaceMany(_, _), ReplaceManySeq(_, _)
ReplaceMany(t, repl) ==
  [k |-> t.k, id |-> t.id, ch |-> [i \in 1..Len(t.ch) |-> <<t.ch[i][1], ReplaceManySeq(t.ch[i][2], repl)>>]]
ReplaceManySeq(ts, repl) ==
  IF ts = <<>> THEN <<>>
  ELSE LET r == ReplFor(repl, Head(ts).id)
       IN (IF r = <<>> THEN <<ReplaceMany(Head(ts), repl)>> ELSE [i \in 1..Len(r) |-> MarkerN(r[i])])
          \o ReplaceManySeq(Tail(ts), repl)

----------------------------------------------------------------------------
(* judging a recorded visit sequence  got = << [id, table, target], ... >>  against Expected(t) *)
Ids(s) == {s[i].id : i \in 1..Len(s)}
PosIn(s, id) == CHOOSE i \in 1..Len(s) : s[i].id = id
CountIn(s, id) == Cardinality({i \in 1..Len(s) : s[i].id = id})

\* sets of input-side coordinates <<parent kind, slot>> per defect class
Judge(t, got) ==
  LET exp == Expected(t)
      once(j) == CountIn(got, exp[j].id) = 1
      \* a node is reported missing only if its parent was visited (a skipped slot, not its whole subtree)
      parentSeen(j) == exp[j].pid < 0 \/ CountIn(got, exp[j].pid) > 0
  IN [missing   |-> {<<exp[j].pk, exp[j].slot>> : j \in {x \in 1..Len(exp) : CountIn(got, exp[x].id) = 0 /\ parentSeen(x)}},
      duplicate |-> {<<exp[j].pk, exp[j].slot>> : j \in {x \in 1..Len(exp) : CountIn(got, exp[x].id) > 1}},
      flag      |-> {<<exp[j].pk, exp[j].slot>> : j \in {x \in 1..Len(exp) : once(x) /\
                        LET g == got[PosIn(got, exp[x].id)] IN g.table # exp[x].table \/ g.target # exp[x].target}},
      \* siblings (same parent) visited in the wrong relative order
      order     |-> {<<exp[p[1]].pk, exp[p[1]].slot, exp[p[2]].slot>> :
                        p \in {q \in (1..Len(exp)) \X (1..Len(exp)) :
                                 /\ q[1] < q[2] /\ exp[q[1]].pid = exp[q[2]].pid /\ once(q[1]) /\ once(q[2])
                                 /\ PosIn(got, exp[q[1]].id) > PosIn(got, exp[q[2]].id)}},
      \* a child visited before its parent
      nesting   |-> {<<exp[j].pk, exp[j].slot>> : j \in {x \in 1..Len(exp) : once(x) /\ exp[x].pid >= 0 /\
                        \E y \in 1..Len(exp) : exp[y].id = exp[x].pid /\ once(y) /\
                             PosIn(got, exp[y].id) > PosIn(got, exp[x].id)}},
      unexpected |-> {got[j].id : j \in {x \in 1..Len(got) : got[x].id \notin Ids(exp)}}]

----------------------------------------------------------------------------
(* C12: placeholders are numbered in textual order = the order in which Expected visits Parameter nodes *)
ParamOrder(t) == LET e == Expected(t) ps == SelectSeq(e, LAMBDA v : v.k = "Parameter") IN [i \in 1..Len(ps) |-> ps[i].id]

RECURSIVE Chain(_, _)
Chain(exp, id) == IF id < 0 THEN <<>> ELSE <<id>> \o Chain(exp, exp[PosIn(exp, id)].pid)
\* for two nodes: <<kind of their lowest common ancestor, slot leading to the first, slot leading to the second>>
Fork(exp, a, b) ==
  LET ca == Chain(exp, a) cb == Chain(exp, b)
      ia == CHOOSE i \in 1..Len(ca) : (\E j \in 1..Len(cb) : cb[j] = ca[i]) /\ \A m \in 1..(i - 1) : \A j \in 1..Len(cb) : cb[j] # ca[m]
      ib == CHOOSE j \in 1..Len(cb) : cb[j] = ca[ia]
      ka == IF ia = 1 THEN a ELSE ca[ia - 1]
      kb == IF ib = 1 THEN b ELSE cb[ib - 1]
  IN <<exp[PosIn(exp, ca[ia])].k, exp[PosIn(exp, ka)].slot, exp[PosIn(exp, kb)].slot>>

\* got = ids of the Parameter nodes in the order the library numbers them
ParamJudge(t, got) ==
  LET exp == Expected(t) want == ParamOrder(t)
      inGot(id) == \E i \in 1..Len(got) : got[i] = id
      gpos(id) == CHOOSE i \in 1..Len(got) : got[i] = id
  IN [missing |-> {<<exp[PosIn(exp, want[i])].pk, exp[PosIn(exp, want[i])].slot>> : i \in {j \in 1..Len(want) : ~inGot(want[j])}},
      twice   |-> {got[i] : i \in {j \in 1..Len(got) : \E m \in 1..Len(got) : m # j /\ got[m] = got[j]}},
      order   |-> {Fork(exp, want[p[1]], want[p[2]]) :
                     p \in {q \in (1..Len(want)) \X (1..Len(want)) :
                              q[1] < q[2] /\ inGot(want[q[1]]) /\ inGot(want[q[2]]) /\ gpos(want[q[1]]) > gpos(want[q[2]])}}]
=============================================================================
