------------------------------- MODULE TailGen -------------------------------
(***************************************************************************)
(* C05 input space: what may FOLLOW a complete statement.  A tail is a     *)
(* sequence of units                                                       *)
(*   semi   ;            block  a block comment      line  a line comment  *)
(*   tok    a token (a word, a keyword, a bracket)   nl    a line break    *)
(* The library strips trailing white space and semicolons and its lexers   *)
(* skip comments; everything else is a token of the input.  So the text    *)
(* `statement tail`, once the comments are gone and the trailing           *)
(* semicolons / blanks are stripped, is                                    *)
(*   "same"    nothing of the tail is left: the text is the statement      *)
(*   "reject"  a semicolon is left (followed by tokens, or shielded from   *)
(*             the strip by a comment): no statement continues after a     *)
(*             semicolon, so the text must be rejected                     *)
(*   "free"    only tokens are left, directly after the statement: they    *)
(*             may continue it (`select 1 x` is a select with an alias) -- *)
(*             the text is simply another input, nothing is claimed        *)
(* Every tail of up to N units is emitted with that verdict; the harness   *)
(* spells it after real statements and the recorded driver run is judged   *)
(* by SlyTrace / Derivation as for any other input.                        *)
(***************************************************************************)
EXTENDS Naturals, Sequences, FiniteSets, TLC
CONSTANT N
Units == {"semi", "block", "line", "tok", "nl"}
VARIABLE t
Tails == UNION {[1..k -> Units] : k \in 1..N}
Interesting(s) == \E i \in 1..Len(s) : s[i] \in {"semi", "block", "line"}

\* what the lexer leaves of the tail: comments and line breaks vanish, semicolons and tokens stay ...
RECURSIVE Lexed(_)
Lexed(s) == IF s = <<>> THEN <<>>
            ELSE (IF Head(s) \in {"semi", "tok"} THEN <<Head(s)>> ELSE <<>>) \o Lexed(Tail(s))
\* ... after the textual strip removed the trailing run of semicolons and line breaks (a comment stops the strip)
RECURSIVE Strip(_)
Strip(s) == IF s # <<>> /\ s[Len(s)] \in {"semi", "nl"} THEN Strip(SubSeq(s, 1, Len(s) - 1)) ELSE s
Remains(s) == Lexed(Strip(s))
Verdict(s) == IF Remains(s) = <<>> THEN "same"
              ELSE IF \E i \in 1..Len(Remains(s)) : Remains(s)[i] = "semi" THEN "reject" ELSE "free"

Init == t \in {s \in Tails : Interesting(s)}
Next == UNCHANGED t
Spec == Init /\ [][Next]_t
\* sanity of the reference itself: a token after a semicolon is always a rejection; semicolons and line breaks alone never
Sane == /\ ((\E i, j \in 1..Len(t) : i < j /\ t[i] = "semi" /\ t[j] = "tok") => Verdict(t) = "reject")
        /\ ((\A i \in 1..Len(t) : t[i] \in {"semi", "nl"}) => Verdict(t) = "same")
        /\ ((\E i \in 1..Len(t) : t[i] = "tok") => Verdict(t) # "same")
Emit == PrintT(<<"TAIL", t, Verdict(t)>>)
=============================================================================
