------------------------------ MODULE GrammarGen ------------------------------
(***************************************************************************)
(* Input space for the parser-side properties: leftmost derivations of the *)
(* grammar a dialect's tables were built from (exported from the           *)
(* repository's own sly at check time).  A behaviour expands the leftmost  *)
(* nonterminal with any production that can still be completed within      *)
(* MaxLen tokens (MinYield is the shortest terminal yield of each symbol,  *)
(* computed by the harness); a sentential form without nonterminals is a   *)
(* sentence of the grammar and is emitted with the productions used.       *)
(* Run with  tlc -simulate  (random behaviours) -- the grammars are far    *)
(* too large for exhaustive search.                                        *)
(***************************************************************************)
EXTENDS Naturals, Sequences, FiniteSets, TLC, Json, IOUtils

G == JsonDeserialize(IOEnv.VERIF_GRAMMAR)    \* [prods, start, minyield (record sym -> n), byname (record nt -> <<prod ids>>), maxlen]
VARIABLES form, used
vars == <<form, used>>

IsNT(s) == s \in DOMAIN G.byname
MY(s) == IF s \in DOMAIN G.minyield THEN G.minyield[s] ELSE 1
RECURSIVE Sum(_)
Sum(seq) == IF seq = <<>> THEN 0 ELSE MY(Head(seq)) + Sum(Tail(seq))

Init == form = <<G.start>> /\ used = <<>>
HasNT == \E i \in 1..Len(form) : IsNT(form[i])
Leftmost == CHOOSE i \in 1..Len(form) : IsNT(form[i]) /\ \A j \in 1..(i - 1) : ~IsNT(form[j])

Expand(p) ==
  /\ HasNT
  /\ LET i == Leftmost
         new == SubSeq(form, 1, i - 1) \o G.prods[p].rhs \o SubSeq(form, i + 1, Len(form))
     IN /\ G.prods[p].name = form[i]
        /\ Sum(new) <= G.maxlen
        /\ form' = new
  /\ used' = Append(used, p)

Next == HasNT /\ \E p \in {G.byname[form[Leftmost]][k] : k \in 1..Len(G.byname[form[Leftmost]])} : Expand(p)
Spec == Init /\ [][Next]_vars
Emit == ~HasNT => PrintT(<<"SENT", form, used>>)
=============================================================================
