------------------------------ MODULE ErrorMsg ------------------------------
(***************************************************************************)
(* C19: what a located syntax-error message must look like, and a          *)
(* transcription of ErrorHandling.error_location (mindsdb_sql/__init__.py) *)
(* as pure definitions, so that TLC can (a) check the layout arithmetic    *)
(* over every small layout and (b) judge every real message.               *)
(*                                                                         *)
(* Text is a sequence of character codes.  A token is                      *)
(*   [ln |-> lexer line number, idx |-> absolute offset, val |-> codes]    *)
(* (val is the token's value after the lexer's rewriting, i.e. what the    *)
(* message prints).  A message is [lines, dashes, carets]: the ">" lines   *)
(* without the ">", and the numbers of "-" and "^" on the caret line.      *)
(***************************************************************************)
EXTENDS Naturals, Integers, Sequences, FiniteSets, TLC

SP == 32
Squeeze(s) == SelectSeq(s, LAMBDA c : c # SP)
RECURSIVE Concat(_)
Concat(ss) == IF ss = <<>> THEN <<>> ELSE Head(ss) \o Concat(Tail(ss))

\* the values of the tokens that the lexer put on line ln, in order
OnLine(toks, ln) == SelectSeq(toks, LAMBDA t : t.ln = ln)
Vals(toks) == [i \in 1..Len(toks) |-> toks[i].val]
\* tokens of the same line that precede token number k
BeforeOnLine(toks, k) == SelectSeq(SubSeq(toks, 1, k - 1), LAMBDA t : t.ln = toks[k].ln)

(* ---- the contract (weakest reading: judged against the line printed above the carets) ---- *)
\* bad = index of the offending token, 0 = unexpected end of input
\* the offending token as written in the source (the lexer's match); token VALUES may have been rewritten by lexer actions
Lex(t) == IF "lex" \in DOMAIN t THEN t.lex ELSE t.val
CaretOK(toks, bad, msg) ==
  LET pl == msg.lines[Len(msg.lines)]
      a  == msg.dashes
      b  == msg.carets
  IN IF bad = 0
     THEN /\ b = 1
          /\ a = Len(pl) + 1                                   \* just after the last printed character
          /\ Len(pl) > 0 /\ pl[Len(pl)] # SP                    \* ... which is the last token's last character
          /\ Squeeze(pl) = Squeeze(Concat(Vals(OnLine(toks, toks[Len(toks)].ln))))
     ELSE /\ b = Len(Lex(toks[bad])) /\ b >= 1
          /\ a >= 1 /\ a + b - 1 <= Len(pl)
          /\ SubSeq(pl, a, a + b - 1) = Lex(toks[bad])          \* the carets select the token's characters AS WRITTEN
          /\ Squeeze(SubSeq(pl, 1, a - 1)) = Squeeze(Concat(Vals(BeforeOnLine(toks, bad))))  \* ... of that occurrence
          /\ Squeeze(pl) = Squeeze(Concat(Vals(OnLine(toks, toks[bad].ln))))   \* the line is reproduced

\* illegal-character message of the lexer: the single caret sits under the offending character
LexCaretOK(ch, msg) ==
  /\ Len(msg.lines) >= 1                       \* the line of the character is reproduced (also when it is the first of several)
  /\ LET pl == msg.lines[Len(msg.lines)] IN
     /\ msg.carets = 1 /\ msg.dashes >= 1 /\ msg.dashes <= Len(pl) /\ pl[msg.dashes] = ch

(* ---- transcription of error_location ---- *)
LineUpd(line, t) ==
  (IF Len(line) > t.idx THEN SubSeq(line, 1, t.idx)
   ELSE line \o [j \in 1..(t.idx - Len(line)) |-> SP]) \o t.val

Pos(acc, ln) == IF \E i \in 1..Len(acc) : acc[i].ln = ln
                THEN CHOOSE i \in 1..Len(acc) : acc[i].ln = ln ELSE 0

RECURSIVE Build(_, _, _)
Build(toks, i, acc) ==
  IF i > Len(toks) THEN acc
  ELSE LET t == toks[i] p == Pos(acc, t.ln) IN
       IF p = 0 THEN Build(toks, i + 1, Append(acc, [ln |-> t.ln, text |-> LineUpd(<<>>, t)]))
       ELSE Build(toks, i + 1, [acc EXCEPT ![p].text = LineUpd(@, t)])

ErrLoc(toks, bad) ==
  LET acc   == Build(toks, 1, <<>>)
      n     == Len(acc)
      shift == [i \in 1..n |-> IF i = 1 THEN 0 ELSE Len(acc[i - 1].text)]
      lines == [i \in 1..n |-> SubSeq(acc[i].text, shift[i] + 1, Len(acc[i].text))]
      el    == IF bad = 0 THEN n ELSE Pos(acc, toks[bad].ln)            \* 1-based error line
      ei    == (IF bad = 0 THEN Len(acc[n].text) ELSE toks[bad].idx) - shift[el]
      fl    == IF el - 1 > 1 THEN el - 2 ELSE 1                          \* first printed line (1-based)
  IN [lines |-> SubSeq(lines, fl, el), dashes |-> ei + 1,
      carets |-> IF bad = 0 THEN 1 ELSE Len(toks[bad].val)]
=============================================================================
