------------------------------ MODULE ExprPrec ------------------------------
(***************************************************************************)
(* C03: the reference grouping of SQL operators.                           *)
(*                                                                         *)
(* Tiers, tightest first:  1 unary minus | 2 * / % | 3 + - |               *)
(*   4 comparisons and the predicates LIKE / IN / BETWEEN / IS [NOT] NULL |*)
(*   5 NOT | 6 AND | 7 OR ;  chains of tiers 2, 3, 6, 7 associate left.    *)
(*                                                                         *)
(* The module enumerates every operator tree with exactly N operator nodes *)
(* (structure only; leaves are numbered left to right), computes where     *)
(* parentheses are NEEDED for the text to denote that tree (a tier-4       *)
(* operator never has an un-parenthesised tier-4 operand: the property's   *)
(* side condition), prints the token sequence with exactly those           *)
(* parentheses, and evaluates the tree in 3-valued logic over all          *)
(* environments {NULL,0,1,2}^3.  The harness feeds the text to the three   *)
(* dialect parsers (tree must come back identical, parentheses flags       *)
(* included) and to sqlite3 (values must equal Eval: the oracle is checked *)
(* against a reference engine before it judges the code).                  *)
(***************************************************************************)
EXTENDS Naturals, Integers, Sequences, FiniteSets, TLC

CONSTANTS N,        \* number of operator nodes
          Mode,     \* "all": every operator;  "reps": representatives of each tier
          Parens    \* "min": parentheses only where needed;  "full": the user also wrapped every compound operand

NULL == -99

MulOps == IF Mode = "all" THEN {"*", "/", "%"} ELSE {"*", "%"}
AddOps == {"+", "-"}
CmpOps == IF Mode = "all" THEN {"=", "!=", "<>", "<", "<=", ">", ">=", "LIKE", "NOT LIKE"} ELSE {"=", ">", "LIKE"}
BinOps == MulOps \cup AddOps \cup CmpOps \cup {"AND", "OR"}
UnOps == {"-", "NOT"}

Leaf == [k |-> "leaf"]
Un(op, a) == [k |-> "un", op |-> op, a |-> a]
Bin(op, l, r) == [k |-> "bin", op |-> op, l |-> l, r |-> r]
Btw(neg, x, lo, hi) == [k |-> "btw", neg |-> neg, x |-> x, lo |-> lo, hi |-> hi]
In(neg, x) == [k |-> "in", neg |-> neg, x |-> x]           \* x [NOT] IN (leaf, leaf)
IsNull(neg, x) == [k |-> "isnull", neg |-> neg, x |-> x]

Negs == IF Mode = "all" THEN BOOLEAN ELSE {FALSE}

RECURSIVE Trees(_)
Trees(n) ==
  IF n = 0 THEN {Leaf}
  ELSE {Un(op, a) : op \in UnOps, a \in Trees(n - 1)}
       \cup UNION {{Bin(op, l, r) : op \in BinOps, l \in Trees(i), r \in Trees(n - 1 - i)} : i \in 0..(n - 1)}
       \cup UNION {UNION {{Btw(g, x, lo, hi) : g \in Negs, x \in Trees(i), lo \in Trees(j), hi \in Trees(n - 1 - i - j)}
                          : j \in 0..(n - 1 - i)} : i \in 0..(n - 1)}
       \cup {In(g, x) : g \in Negs, x \in Trees(n - 1)}
       \cup {IsNull(g, x) : g \in BOOLEAN, x \in Trees(n - 1)}

Tier(t) ==
  CASE t.k = "leaf" -> 0
    [] t.k = "un" -> IF t.op = "-" THEN 1 ELSE 5
    [] t.k = "bin" -> (IF t.op \in MulOps \cup {"/"} THEN 2 ELSE IF t.op \in AddOps THEN 3
                       ELSE IF t.op = "AND" THEN 6 ELSE IF t.op = "OR" THEN 7 ELSE 4)
    [] OTHER -> 4

\* does child c need parentheses as an operand of a parent of tier pt?  side: "l" | "r" | "u" | "p" (predicate operand)
Need(c, pt, side) ==
  LET ct == Tier(c) IN
  IF Parens = "full" THEN ct > 0 ELSE
  CASE side = "p" -> ct > 3                            \* operands of IN / BETWEEN / IS NULL / both sides of a comparison
    [] side = "u" -> (IF pt = 1 THEN ct > 0 ELSE ct > 5)    \* -x needs a primary; NOT x takes anything up to NOT
    [] side = "l" -> ct > pt
    [] side = "r" -> ct >= pt
    [] OTHER -> FALSE

Wrap(b, toks) == IF b THEN <<"(">> \o toks \o <<")">> ELSE toks

RECURSIVE Show(_)
Show(t) ==
  CASE t.k = "leaf" -> <<"L">>
    [] t.k = "un" -> <<t.op>> \o Wrap(Need(t.a, Tier(t), "u"), Show(t.a))
    [] t.k = "bin" ->
         (IF Tier(t) = 4
          THEN Wrap(Need(t.l, 4, "p"), Show(t.l)) \o <<t.op>> \o Wrap(Need(t.r, 4, "p"), Show(t.r))
          ELSE Wrap(Need(t.l, Tier(t), "l"), Show(t.l)) \o <<t.op>> \o Wrap(Need(t.r, Tier(t), "r"), Show(t.r)))
    [] t.k = "btw" -> Wrap(Need(t.x, 4, "p"), Show(t.x)) \o (IF t.neg THEN <<"NOT">> ELSE <<>>) \o <<"BETWEEN">>
                      \o Wrap(Need(t.lo, 4, "p"), Show(t.lo)) \o <<"AND">> \o Wrap(Need(t.hi, 4, "p"), Show(t.hi))
    [] t.k = "in" -> Wrap(Need(t.x, 4, "p"), Show(t.x)) \o (IF t.neg THEN <<"NOT">> ELSE <<>>)
                     \o <<"IN", "(", "L", ",", "L", ")">>
    [] t.k = "isnull" -> Wrap(Need(t.x, 4, "p"), Show(t.x)) \o <<"IS">> \o (IF t.neg THEN <<"NOT">> ELSE <<>>) \o <<"NULL">>

\* the expected tree with parentheses flags: same shape, p = TRUE exactly on wrapped operands
RECURSIVE Flag(_, _)
Flag(t, p) ==
  CASE t.k = "leaf" -> <<"leaf", p>>
    [] t.k = "un" -> <<"un", t.op, p, Flag(t.a, Need(t.a, Tier(t), "u"))>>
    [] t.k = "bin" ->
         (IF Tier(t) = 4
          THEN <<"bin", t.op, p, Flag(t.l, Need(t.l, 4, "p")), Flag(t.r, Need(t.r, 4, "p"))>>
          ELSE <<"bin", t.op, p, Flag(t.l, Need(t.l, Tier(t), "l")), Flag(t.r, Need(t.r, Tier(t), "r"))>>)
    [] t.k = "btw" -> <<"btw", t.neg, p, Flag(t.x, Need(t.x, 4, "p")), Flag(t.lo, Need(t.lo, 4, "p")),
                        Flag(t.hi, Need(t.hi, 4, "p"))>>
    [] t.k = "in" -> <<"in", t.neg, p, Flag(t.x, Need(t.x, 4, "p"))>>
    [] t.k = "isnull" -> <<"isnull", t.neg, p, Flag(t.x, Need(t.x, 4, "p"))>>

----------------------------------------------------------------------------
(* 3-valued evaluation (sqlite/MySQL integer semantics); leaves are numbered left to right and read
   variable ((index - 1) % 3) + 1 of the environment *)
Truth(v) == IF v = NULL THEN NULL ELSE IF v # 0 THEN 1 ELSE 0
Not3(v) == IF v = NULL THEN NULL ELSE 1 - Truth(v)
And3(a, b) == IF Truth(a) = 0 \/ Truth(b) = 0 THEN 0 ELSE IF a = NULL \/ b = NULL THEN NULL ELSE 1
Or3(a, b) == IF Truth(a) = 1 \/ Truth(b) = 1 THEN 1 ELSE IF a = NULL \/ b = NULL THEN NULL ELSE 0
B(x) == IF x THEN 1 ELSE 0
\* truncated division like sqlite (operands here are small and may be negative)
Abs(x) == IF x < 0 THEN -x ELSE x
Sgn(x) == IF x < 0 THEN -1 ELSE 1
TDiv(a, b) == Sgn(a) * Sgn(b) * (Abs(a) \div Abs(b))
TMod(a, b) == a - b * TDiv(a, b)

BinVal(op, a, b) ==
  IF op = "AND" THEN And3(a, b) ELSE IF op = "OR" THEN Or3(a, b)
  ELSE IF a = NULL \/ b = NULL THEN NULL
  ELSE CASE op = "*" -> a * b [] op = "+" -> a + b [] op = "-" -> a - b
         [] op = "/" -> (IF b = 0 THEN NULL ELSE TDiv(a, b))
         [] op = "%" -> (IF b = 0 THEN NULL ELSE TMod(a, b))
         [] op = "=" -> B(a = b) [] op = "LIKE" -> B(a = b) [] op = "NOT LIKE" -> B(a # b)
         [] op \in {"!=", "<>"} -> B(a # b)
         [] op = "<" -> B(a < b) [] op = "<=" -> B(a <= b) [] op = ">" -> B(a > b) [] op = ">=" -> B(a >= b)

\* Ev returns <<value, number of leaves consumed>>
RECURSIVE Ev(_, _, _)
Ev(t, env, k) ==
  CASE t.k = "leaf" -> <<env[((k - 1) % 3) + 1], 1>>
    [] t.k = "un" -> LET a == Ev(t.a, env, k) IN
                     <<IF t.op = "-" THEN (IF a[1] = NULL THEN NULL ELSE -a[1]) ELSE Not3(a[1]), a[2]>>
    [] t.k = "bin" -> LET l == Ev(t.l, env, k) r == Ev(t.r, env, k + l[2]) IN <<BinVal(t.op, l[1], r[1]), l[2] + r[2]>>
    [] t.k = "btw" -> LET x == Ev(t.x, env, k) lo == Ev(t.lo, env, k + x[2]) hi == Ev(t.hi, env, k + x[2] + lo[2])
                          v == And3(BinVal(">=", x[1], lo[1]), BinVal("<=", x[1], hi[1]))
                      IN <<IF t.neg THEN Not3(v) ELSE v, x[2] + lo[2] + hi[2]>>
    [] t.k = "in" -> LET x == Ev(t.x, env, k)
                         i1 == env[((k + x[2] - 1) % 3) + 1] i2 == env[((k + x[2]) % 3) + 1]
                         v == Or3(BinVal("=", x[1], i1), BinVal("=", x[1], i2))
                     IN <<IF t.neg THEN Not3(v) ELSE v, x[2] + 2>>
    [] t.k = "isnull" -> LET x == Ev(t.x, env, k) IN <<IF t.neg THEN B(x[1] # NULL) ELSE B(x[1] = NULL), x[2]>>

Vals == <<NULL, 0, 1, 2>>
Envs == [i \in 1..64 |-> <<Vals[((i - 1) \div 16) + 1], Vals[(((i - 1) \div 4) % 4) + 1], Vals[((i - 1) % 4) + 1]>>]
EvalAll(t) == [i \in 1..64 |-> Ev(t, Envs[i], 1)[1]]

----------------------------------------------------------------------------
VARIABLE t
Init == t \in Trees(N)
Next == UNCHANGED t
Spec == Init /\ [][Next]_t

\* one line per case for the harness
Emit == PrintT(<<"CASE", Show(t), Flag(t, FALSE), EvalAll(t)>>)

\* spec-level sanity: parentheses are needed only where the grouping would otherwise differ -- a wrapped
\* operand is never a leaf, and the printed text has balanced parentheses
Count(s, x) == Cardinality({i \in 1..Len(s) : s[i] = x})
PrintSane == LET p == Show(t) IN Count(p, "(") = Count(p, ")")
=============================================================================
