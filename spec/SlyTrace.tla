------------------------------ MODULE SlyTrace ------------------------------
(***************************************************************************)
(* code -> spec: every recorded run of the real sly driver (events emitted *)
(* by the guarded sink in sly/yacc.py) must be a behaviour of SlyDriver    *)
(* under the real tables, and SlyDriver's invariants are evaluated at      *)
(* every recorded step (violations accumulate in `flags`).                 *)
(*                                                                         *)
(* One TLC run validates a batch: Init picks a trace id, every trace is a  *)
(* deterministic chain of states, and a trace that reaches its end prints  *)
(*   <<"ACC", tid, phase, flags>>.   A trace with no ACC line is rejected. *)
(***************************************************************************)
EXTENDS Naturals, Integers, Sequences, FiniteSets, TLC, Json, IOUtils

Data == JsonDeserialize(IOEnv.VERIF_TABLES)
Traces == JsonDeserialize(IOEnv.VERIF_TRACES)
Debug == "VERIF_DEBUG" \in DOMAIN IOEnv

VARIABLES input, cb, pos, look, lookStack, stateStack, symStack, state, errcount, errok, pc,
          phase, shifted, dropped, ncb,
          tid, l, flags, done, aux

D == INSTANCE SlyDriver WITH
       Prods <- Data.prods, Action <- Data.action, Goto <- Data.goto, Defaulted <- Data.defaulted,
       RaisingProds <- {}

tvars == <<input, cb, pos, look, lookStack, stateStack, symStack, state, errcount, errok, pc,
           phase, shifted, dropped, ncb, tid, l, flags, done, aux>>

Tr == Traces[tid]
Ev == Tr.events[l]

TraceInit ==
  /\ tid \in 1..Len(Traces)
  /\ l = 1 /\ flags = {} /\ done = FALSE /\ aux = {}
  /\ D!Init(Traces[tid].input, Traces[tid].cb)

Is(e) == l <= Len(Tr.events) /\ Ev.e = e

\* table-free derivation monitor (C05): evaluated on the step just taken
ShiftOK == Ev.e = "shift" =>
             /\ look.idx = Len(shifted) + 1          \* the next token of the independently lexed input
             /\ look.idx <= Len(input) /\ input[look.idx] = Ev.ty
ReduceOK == Ev.e = "reduce" =>
             LET p == Data.prods[Ev.n] n == Len(p.rhs) IN
               /\ Len(symStack) > n
               /\ SubSeq(symStack, Len(symStack) - n + 1, Len(symStack)) = p.rhs
AcceptOK == Ev.e = "accept" =>
             /\ symStack = <<"$end", Data.start>>
             /\ shifted = [k \in 1..Len(input) |-> k]
             /\ ncb = 0 /\ dropped = <<>>

Monitors ==
  flags' = flags
     \cup (IF ~(D!OutcomeAllowed' \/ phase' = "raised_lex") THEN {"OutcomeAllowed"} ELSE {})
     \cup (IF ~D!NoSilentDrop' THEN {"NoSilentDrop"} ELSE {})
     \cup (IF ~D!ShiftedIsPrefix' THEN {"ShiftedIsPrefix"} ELSE {})
     \cup (IF ncb > 0 /\ shifted' # shifted THEN {"ShiftAfterError"} ELSE {})
     \cup (IF ncb > 0 /\ phase' = "accepted" THEN {"AcceptAfterError"} ELSE {})
     \cup (IF ~ShiftOK THEN {"ShiftNotNextInputToken"} ELSE {})
     \cup (IF ~ReduceOK THEN {"ReduceNotOnStackTop"} ELSE {})
     \cup (IF ~AcceptOK THEN {"AcceptNotWholeInput"} ELSE {})

\* exceptions the hooks cannot see are synthesised by the harness as events:
\*   action_raise(cls, p)  -- grammar action raised;  cb_raise(cls) -- Parser.error raised;
\*   pull_raise(cls)       -- the token iterator raised (LexError) while the driver pulled
RaisePhase(cls) == IF cls = "ParsingException" THEN "raised_parsing"
                   ELSE IF cls = "LexError" THEN "raised_lex" ELSE "raised_internal"

TPull    == Is("pull") /\ D!Pull /\ look'.type = Ev.ty /\ look'.idx = Ev.i
TPopLook == Is("poplook") /\ D!PopLook /\ look'.type = Ev.ty
TShift   == Is("shift") /\ D!Shift /\ state' = Ev.n /\ look.type = Ev.ty
TReduce  == Is("reduce") /\ Ev.n \in 1..Len(Data.prods) /\ D!Reduce(Ev.n) /\ state' = Ev.i
TAccept  == Is("accept") /\ D!Accept
TErrBegin == Is("error_cb_begin") /\ D!ErrBegin /\ state = Ev.n /\ look.type = Ev.ty
TCbReturn == Is("error_cb") /\ Ev.ty = "" /\ D!CbReturn(Ev.i)
TCbRaise == Is("cb_raise") /\ pc = "incb" /\ phase = "run"
              /\ phase' = RaisePhase(Ev.ty)
              /\ UNCHANGED <<input, cb, pos, look, lookStack, stateStack, symStack, state, errcount,
                             errok, pc, shifted, dropped, ncb>>
TActionRaise == Is("action_raise") /\ pc = "top" /\ phase = "run" /\ ~D!NeedLook /\ D!T = -Ev.n
              /\ phase' = RaisePhase(Ev.ty)
              /\ UNCHANGED <<input, cb, pos, look, lookStack, stateStack, symStack, state, errcount,
                             errok, pc, shifted, dropped, ncb>>
TPullRaise == Is("pull_raise") /\ pc = "top" /\ phase = "run" /\ D!NeedLook /\ lookStack = <<>>
              /\ pos = Len(input) /\ Tr.lexerr = 1
              /\ phase' = RaisePhase(Ev.ty)
              /\ UNCHANGED <<input, cb, pos, look, lookStack, stateStack, symStack, state, errcount,
                             errok, pc, shifted, dropped, ncb>>
TReturnNone == Is("return_none") /\ D!ReturnNoneAtEOF
TErrAgain == Is("reset_errcount") /\ D!ErrAgain
TDiscard == Is("discard") /\ look.type = Ev.ty /\ D!DiscardAtBottom
TBail    == Is("bail") /\ D!BailAtEnd
TNuke    == Is("nuke") /\ look.type = Ev.ty /\ D!NukeUnderErrorTop
TPushErr == Is("push_error") /\ D!PushErrorSym
TPop     == Is("pop") /\ D!PopState /\ state' = Ev.n

Step ==
  /\ ~done
  /\ \/ TPull \/ TPopLook \/ TShift \/ TReduce \/ TAccept \/ TErrBegin \/ TCbReturn \/ TCbRaise
     \/ TActionRaise \/ TPullRaise \/ TReturnNone \/ TErrAgain \/ TDiscard \/ TBail \/ TNuke
     \/ TPushErr \/ TPop
  /\ l' = l + 1 /\ Monitors
  /\ (Debug => PrintT(<<"AT", tid, l>>))
  /\ UNCHANGED <<tid, done>>
  \* C19: at the first reported error, which of the suggested texts (token-type sequences; indices into Tr.sugg) cannot be shifted here?
  /\ aux' = IF Ev.e = "error_cb_begin" /\ ncb = 0 /\ "sugg" \in DOMAIN Tr
            THEN {j \in 1..Len(Tr.sugg) : ~D!ShiftableSeq(stateStack, Tr.sugg[j])}
            ELSE aux

Finish ==
  /\ ~done /\ l = Len(Tr.events) + 1
  /\ phase = Tr.outcome
  /\ done' = TRUE
  /\ PrintT(<<"ACC", tid, phase, flags, aux>>)
  /\ UNCHANGED <<input, cb, pos, look, lookStack, stateStack, symStack, state, errcount, errok, pc,
                 phase, shifted, dropped, ncb, tid, l, flags, aux>>

TraceNext == Step \/ Finish
TraceSpec == TraceInit /\ [][TraceNext]_tvars

\* static obligations on the exported grammar (C05 "mechanisms")
NoErrorProductions == \A p \in 1..Len(Data.prods) : \A k \in 1..Len(Data.prods[p].rhs) :
                         Data.prods[p].rhs[k] # "error"
StartNotNullable == "$end" \notin DOMAIN Data.action[1] /\ Data.defaulted[1] = 0
=============================================================================
