------------------------------ MODULE RoundTrip ------------------------------
(***************************************************************************)
(* C01: text0 -Parse-> tree1 -Print-> text1 -Parse-> tree2 -Print-> text2, *)
(* and tree1 -Copy-> treeC.  Each recorded pipeline run is a behaviour of  *)
(* this little machine; the digests are those of the generic reflection    *)
(* projection (not of ASTNode.__eq__ / to_tree).                           *)
(*   Idempotent : tree2 = tree1, text2 = text1, treeC = tree1, and neither *)
(*                Print nor the second Parse fails.                        *)
(*   HistoryFree: the print does not depend on the call history (which    *)
(*                dialects were used earlier in the interpreter).          *)
(***************************************************************************)
EXTENDS Naturals, Sequences, FiniteSets, TLC, Json, IOUtils
Traces == JsonDeserialize(IOEnv.VERIF_TRACES)
VARIABLES tid, l, tree1, text1, tree2, text2, treeC, flags, done
vars == <<tid, l, tree1, text1, tree2, text2, treeC, flags, done>>
Tr == Traces[tid]
Ev == Tr.events[l]
Init == /\ tid \in 1..Len(Traces) /\ l = 1 /\ tree1 = "" /\ text1 = "" /\ tree2 = "" /\ text2 = "" /\ treeC = ""
        /\ flags = {} /\ done = FALSE
Is(e) == l <= Len(Tr.events) /\ Ev.e = e
Adv == l' = l + 1 /\ UNCHANGED <<tid, done>>
Parse1 == Is("parse1") /\ tree1 = "" /\ tree1' = Ev.d /\ Adv /\ UNCHANGED <<text1, tree2, text2, treeC, flags>>
Print1 == Is("print1") /\ tree1 # "" /\ text1' = Ev.d /\ Adv /\ UNCHANGED <<tree1, tree2, text2, treeC>>
          /\ flags' = flags \cup (IF Ev.ok = 0 THEN {"PrintRaises"} ELSE {})
Parse2 == Is("parse2") /\ text1 # "" /\ tree2' = Ev.d /\ Adv /\ UNCHANGED <<tree1, text1, text2, treeC>>
          /\ flags' = flags \cup (IF Ev.ok = 0 THEN {"PrintedTextRejected"} ELSE IF Ev.d # tree1 THEN {"ReparsedTreeDiffers"} ELSE {})
Print2 == Is("print2") /\ tree2 # "" /\ text2' = Ev.d /\ Adv /\ UNCHANGED <<tree1, text1, tree2, treeC>>
          /\ flags' = flags \cup (IF Ev.ok = 0 THEN {"PrintRaises"} ELSE IF Ev.d # text1 THEN {"SecondPrintDiffers"} ELSE {})
Copy == Is("copy") /\ tree1 # "" /\ treeC' = Ev.d /\ Adv /\ UNCHANGED <<tree1, text1, tree2, text2>>
        /\ flags' = flags \cup (IF Ev.ok = 0 THEN {"CopyRaises"} ELSE IF Ev.d # tree1 THEN {"CopyDiffers"} ELSE {})
        \cup (IF Ev.ok = 1 /\ Ev.t # text1 /\ text1 # "" THEN {"CopyPrintsDifferently"} ELSE {})
\* the record of a pipeline run in another call history carries the print of the baseline history
Hist == Is("hist") /\ tree1 # "" /\ Adv /\ UNCHANGED <<tree1, text1, tree2, text2, treeC>>
        /\ flags' = flags \cup (IF Ev.d # text1 THEN {"PrintDependsOnHistory"} ELSE {})
Step == ~done /\ (Parse1 \/ Print1 \/ Parse2 \/ Print2 \/ Copy \/ Hist)
Finish == /\ ~done /\ l = Len(Tr.events) + 1 /\ done' = TRUE /\ PrintT(<<"ACC", tid, flags>>)
          /\ UNCHANGED <<tid, l, tree1, text1, tree2, text2, treeC, flags>>
Spec == Init /\ [][Step \/ Finish]_vars
=============================================================================
