SPECIFICATION Spec
CONSTANTS Raisable = {"SQLAlchemyError", "NotImplementedError"}
 Guarded = {"translate", "compile"}
CHECK_DEADLOCK FALSE
INVARIANT Contract
PROPERTY Terminates
