SPECIFICATION Spec
CONSTANTS N = 3
 Mode = "all"
 Parens = "min"
INVARIANT Emit
INVARIANT PrintSane
