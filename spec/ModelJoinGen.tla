----------------------------- MODULE ModelJoinGen -----------------------------
(* every WHERE tree of depth <= 2 over distinct atoms, with the contract's answer *)
EXTENDS ModelJoin
VARIABLE w
Ids == 1..Len(Atoms)
L0 == {A(i) : i \in Ids}
L1 == L0 \cup {[k |-> "not", a |-> x] : x \in L0}
        \cup {y \in {[k |-> o, a |-> A(i), b |-> A(j)] : o \in {"and", "or"}, i \in Ids, j \in Ids} : y.a # y.b}
RECURSIVE Used(_)
Used(x) == IF x.k = "atom" THEN {x.id} ELSE IF x.k = "not" THEN Used(x.a) ELSE IF x.k = "true" THEN {} ELSE Used(x.a) \cup Used(x.b)
L2 == L1 \cup {[k |-> "not", a |-> x] : x \in L1 \ L0}
         \cup {y \in {[k |-> o, a |-> x, b |-> A(j)] : o \in {"and", "or"}, x \in L1 \ L0, j \in Ids} : y.b.id \notin Used(y.a)}
         \cup {y \in {[k |-> o, a |-> A(j), b |-> x] : o \in {"and", "or"}, x \in L1 \ L0, j \in Ids} : y.a.id \notin Used(y.b)}
Init == w \in L2
Next == UNCHANGED w
Spec == Init /\ [][Next]_w
Sound == PushSound(w)
Emit == PrintT(<<"W", w, AllowedPush(w), ModelArgs(w), Residual(w)>>)
=============================================================================
