SPECIFICATION Spec
CONSTANTS Policy = "fixed-share"
 Listed = {"parts", "alias"}
CHECK_DEADLOCK FALSE
INVARIANT CopyEqual
INVARIANT Disjoint
INVARIANT OriginalUntouched
