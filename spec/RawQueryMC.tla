----------------------------- MODULE RawQueryMC -----------------------------
(* all layouts of N tokens (0..2 newlines and 0..2 blanks before each, lexemes of  *)
(* length 1..2); with Rewrite = TRUE a token's value may be 1..2 characters shorter *)
(* than its lexeme (what the lexer does to strings and variables).                 *)
EXTENDS RawQuery
CONSTANTS N, Rewrite
VARIABLE lay

Choice == [nl : 0..2, gap : 0..2, vlen : 1..2, shrink : (IF Rewrite THEN {0, 1, 2} ELSE {0})]
RECURSIVE Toks(_, _, _, _)
Toks(l, i, end, ln) ==
  IF i > Len(l) THEN <<>>
  ELSE LET idx == end + l[i].nl + l[i].gap
           src == [j \in 1..(l[i].vlen + l[i].shrink) |-> 64 + i]
           t == [ln |-> ln + l[i].nl, idx |-> idx, val |-> [j \in 1..l[i].vlen |-> 64 + i], src |-> src]
       IN <<t>> \o Toks(l, i + 1, idx + Len(src), ln + l[i].nl)

Init == lay \in [1..N -> Choice]
Next == UNCHANGED lay
Spec == Init /\ [][Next]_lay
StoredVerbatim == LET toks == Toks(lay, 1, 0, 1) IN Verbatim(toks, ToStr(toks))
=============================================================================
