SPECIFICATION Spec
CONSTANT N = 3
INVARIANT Emit
