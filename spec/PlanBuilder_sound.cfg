SPECIFICATION Spec
CONSTANTS MaxItems = 4
 CloseFirst = TRUE
CHECK_DEADLOCK FALSE
INVARIANT Numbered
INVARIANT ForwardOnly
INVARIANT LastIsAnswer
INVARIANT Emit
