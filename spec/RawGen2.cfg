SPECIFICATION Spec
CONSTANT N = 2
INVARIANT Emit
