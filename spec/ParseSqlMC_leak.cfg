SPECIFICATION Spec
CONSTANT MaxCand = 4
CONSTANT InternalPossible = TRUE
CHECK_DEADLOCK FALSE
INVARIANT OutcomeAllowed
