--------------------------- MODULE ErrorMsgTrace ---------------------------
(* Judge every real error message: it must satisfy the contract CaretOK and   *)
(* (binding) coincide with the transcription ErrLoc of error_location.        *)
EXTENDS ErrorMsg, Json, IOUtils
Traces == JsonDeserialize(IOEnv.VERIF_TRACES)
VARIABLES tid, done

Verdict(t) ==
  IF t.kind = "lex"
  THEN (IF LexCaretOK(t.ch, t.msg) THEN {} ELSE {"LexCaret"})
  ELSE (IF CaretOK(t.toks, t.bad, t.msg) THEN {} ELSE {"Caret"})
       \cup (IF t.msg = ErrLoc(t.toks, t.bad) THEN {} ELSE {"ModelDiffers"})

Init == tid \in 1..Len(Traces) /\ done = FALSE
Judge == /\ ~done /\ done' = TRUE /\ UNCHANGED tid
         /\ PrintT(<<"ACC", tid, Verdict(Traces[tid])>>)
Spec == Init /\ [][Judge]_<<tid, done>>
=============================================================================
