------------------------------- MODULE RawGen -------------------------------
(* Input space for C16: inner token sequences of up to N token kinds with a    *)
(* separator kind before each token.                                           *)
EXTENDS Naturals, Sequences, TLC
CONSTANT N
VARIABLE c
Kinds == {"word", "star", "decimal", "int0", "estr", "str", "dstr", "bstr", "dq", "var", "sysvar", "qvar",
          "paren", "eq", "comma", "param", "nlstr",
          \* doubled single quotes inside a double-quoted literal; a statement separator inside quotes / a quoted name
          "dq2sq", "semistr", "semibq"}
\* "none": the tokens are written without anything between them (where that still lexes as the same tokens)
Seps == {"sp", "sp2", "nl", "nlind", "blockcmt", "linecmt", "nl2", "none"}
Init == c \in UNION {{[ks |-> ks, sep |-> s] : ks \in [1..n -> Kinds], s \in Seps} : n \in 1..N}
Next == UNCHANGED c
Spec == Init /\ [][Next]_c
Emit == PrintT(<<"RAW", c.ks, c.sep>>)
=============================================================================
