----------------------------- MODULE Derivation -----------------------------
(***************************************************************************)
(* Table-free replay of a recorded parser run (C05).  Only the grammar's   *)
(* productions are used, never the LR tables, so the verdict does not      *)
(* depend on how the driver is implemented: an accepted run must be a      *)
(* bottom-up derivation of the independently lexed token list --           *)
(*   shift   consumes exactly the next input token,                        *)
(*   reduce  pops exactly rhs(p) and pushes name(p),                       *)
(*   accept  happens with the stack <<$end, Start>>, the whole input       *)
(*           shifted and no syntax error reported before.                  *)
(* The replay never blocks: deviations accumulate in `flags`.              *)
(***************************************************************************)
EXTENDS Naturals, Integers, Sequences, FiniteSets, TLC, Json, IOUtils

Data == JsonDeserialize(IOEnv.VERIF_TABLES)
Traces == JsonDeserialize(IOEnv.VERIF_TRACES)
VARIABLES tid, l, sym, nshift, ncb, flags, accepted, done
vars == <<tid, l, sym, nshift, ncb, flags, accepted, done>>

Tr == Traces[tid]
Ev == Tr.events[l]
Init == /\ tid \in 1..Len(Traces) /\ l = 1 /\ sym = <<"$end">> /\ nshift = 0 /\ ncb = 0
        /\ flags = {} /\ accepted = FALSE /\ done = FALSE

Shift ==
  /\ Ev.e = "shift"
  /\ IF Ev.ty = "error" THEN UNCHANGED nshift ELSE nshift' = nshift + 1
  /\ sym' = Append(sym, Ev.ty)
  /\ flags' = flags
       \cup (IF Ev.ty # "error" /\ (nshift + 1 > Len(Tr.input) \/ Tr.input[nshift + 1] # Ev.ty)
             THEN {"ShiftNotNextInputToken"} ELSE {})
       \cup (IF ncb > 0 /\ Ev.ty # "error" THEN {"ShiftAfterError"} ELSE {})
       \cup (IF Ev.ty = "error" THEN {"ErrorSymbolShifted"} ELSE {})
  /\ UNCHANGED <<ncb, accepted>>
Reduce ==
  /\ Ev.e = "reduce"
  /\ LET ok == Ev.n \in 1..Len(Data.prods)
         p == Data.prods[IF ok THEN Ev.n ELSE 1]
         n == Len(p.rhs)
         top == Len(sym) > n /\ SubSeq(sym, Len(sym) - n + 1, Len(sym)) = p.rhs
     IN /\ sym' = IF ok /\ top THEN Append(SubSeq(sym, 1, Len(sym) - n), p.name) ELSE sym
        /\ flags' = flags \cup (IF ok /\ top THEN {} ELSE {"ReduceNotOnStackTop"})
  /\ UNCHANGED <<nshift, ncb, accepted>>
Accept ==
  /\ Ev.e = "accept"
  /\ accepted' = TRUE
  /\ flags' = flags
       \cup (IF sym # <<"$end", Data.start>> \/ nshift # Len(Tr.input) THEN {"AcceptNotWholeInput"} ELSE {})
       \cup (IF ncb > 0 THEN {"AcceptAfterError"} ELSE {})
  /\ UNCHANGED <<sym, nshift, ncb>>
ErrorReported ==
  /\ Ev.e = "error_cb_begin" /\ ncb' = ncb + 1 /\ UNCHANGED <<sym, nshift, flags, accepted>>
Pop ==       \* panic-mode recovery popped a state: the symbol goes too
  /\ Ev.e = "pop" /\ sym' = (IF Len(sym) > 1 THEN SubSeq(sym, 1, Len(sym) - 1) ELSE sym)
  /\ UNCHANGED <<nshift, ncb, flags, accepted>>
Other ==
  /\ Ev.e \notin {"shift", "reduce", "accept", "error_cb_begin", "pop"}
  /\ UNCHANGED <<sym, nshift, ncb, flags, accepted>>

Step == /\ ~done /\ l <= Len(Tr.events) /\ l' = l + 1 /\ UNCHANGED <<tid, done>>
        /\ (Shift \/ Reduce \/ Accept \/ ErrorReported \/ Pop \/ Other)
Finish == /\ ~done /\ l = Len(Tr.events) + 1 /\ done' = TRUE
          /\ PrintT(<<"ACC", tid, IF accepted THEN "accepted" ELSE "not_accepted", flags>>)
          /\ UNCHANGED <<tid, l, sym, nshift, ncb, flags, accepted>>
Spec == Init /\ [][Step \/ Finish]_vars
=============================================================================
