SPECIFICATION Spec
CONSTANT MaxLen = 4
CHECK_DEADLOCK FALSE
INVARIANT NoPlanWithoutPrepare
INVARIANT Emit
