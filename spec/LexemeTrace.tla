----------------------------- MODULE LexemeTrace -----------------------------
(* Judge what the real encoders printed: the text must be exactly one literal (or   *)
(* identifier path) that the target's lexical rules read back as the given value.    *)
EXTENDS Lexeme, Json, IOUtils
Traces == JsonDeserialize(IOEnv.VERIF_TRACES)
VARIABLES tid, done

Verdict(x) ==
  IF x.kind = "str"
  THEN LET r == ScanStr(x.style, x.text) IN
       IF ~r.ok THEN "unterminated-or-not-a-literal"
       ELSE IF r.end # Len(x.text) THEN "ends-early"
       ELSE IF r.val # x.value THEN "wrong-value" ELSE "ok"
  ELSE IF x.kind = "var"
  THEN LET r == ScanVar(x.text) IN
       IF ~r.ok THEN "not-a-variable"
       ELSE IF r.end # Len(x.text) THEN "ends-early"
       ELSE IF r.sys # (x.style = "sys") THEN "wrong-kind"
       ELSE IF r.name # x.value THEN "wrong-name" ELSE "ok"
  ELSE IF x.kind = "tstmt" THEN MatchSegs(x.style, x.text, 1, x.segs)
  ELSE LET r == ScanPath(x.text) IN
       IF ~r.ok THEN "not-a-path" ELSE IF r.parts # x.parts THEN "wrong-parts" ELSE "ok"

Init == tid \in 1..Len(Traces) /\ done = FALSE
Judge == /\ ~done /\ done' = TRUE /\ UNCHANGED tid /\ PrintT(<<"ACC", tid, Verdict(Traces[tid])>>)
Spec == Init /\ [][Judge]_<<tid, done>>
=============================================================================
