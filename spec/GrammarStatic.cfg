SPECIFICATION Spec
INVARIANT NoErrorProductions
INVARIANT StartNotNullable
INVARIANT Balanced
INVARIANT TablesWellFormed
