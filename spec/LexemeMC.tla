------------------------------ MODULE LexemeMC ------------------------------
(* Every literal body of up to N units per quoting style, every identifier path of  *)
(* up to 3 parts over the part classes: the reference is self-consistent (the       *)
(* scanner reads back exactly what the units denote) and each case is emitted for   *)
(* the harness to replay into the real lexers/parsers.                              *)
EXTENDS Lexeme
CONSTANT N
VARIABLE c

SeqsUpTo(S, n) == UNION {[1..k -> S] : k \in 0..n}
RECURSIVE Cat2(_)
Cat2(us) == IF us = <<>> THEN <<>> ELSE Head(us) \o Cat2(Tail(us))

\* (the long unit / long name class only up to N = 3: TLC evaluates this one-step space in a single thread, N = 4 takes a quarter of an hour)
UnitsN(st) == IF N > 3 THEN {u \in Units(st) : u[1] # "long"} ELSE Units(st)
PartClassesN == IF N > 3 THEN {p \in PartClasses : p[1] # "long70"} ELSE PartClasses
StrCases == UNION {{[kind |-> "STR", style |-> st, us |-> us] : us \in SeqsUpTo(UnitsN(st), N)}
                   : st \in {"lib_sq", "lib_dq", "mysql", "std"}}
Forms == {<<p, q>> : p \in PartClassesN, q \in BOOLEAN} \ {<<p, FALSE>> : p \in {x \in PartClassesN : ~x[3]}}
IdCases == {[kind |-> "ID", fs |-> fs] : fs \in UNION {[1..k -> Forms] : k \in 1..(IF N > 3 THEN 3 ELSE 2)}}

\* constant values for the encoders: every sequence of up to N characters over the interesting classes
\* a space ' " \ % e-acute newline : ; -
ValueChars == {97, 32, 39, 34, 92, 37, 233, 10, 13, 58, 59, 45}
ValCases == {[kind |-> "VAL", v |-> v] : v \in SeqsUpTo(ValueChars, IF N > 3 THEN 4 ELSE 3)}
\* identifier part lists for the encoder (the keyword class must be quoted by the printer)
\* (also names whose upper-/lower-case form collides with a plain ASCII word: sharp s / "ss", the fi ligature / "fi")
EncParts == {p[2] : p \in PartClasses} \cup {<<102, 114, 111, 109>>, <<112, 114, 105, 109, 97, 114, 121, 95, 107, 101, 121>>,
             <<223>>, <<115, 115>>, <<64257>>, <<102, 105>>, <<304>>, <<105>>}
EncCases == {[kind |-> "PARTS", ps |-> ps] : ps \in UNION {[1..k -> EncParts] : k \in 1..2}}

\* variable names: a letter followed by up to N-1 units, in each written form; the same names go to the printer
VarNames(q) == {<<97>> \o Cat2(us) : us \in SeqsUpTo(VarUnits(q), IF N > 3 THEN 3 ELSE 2)}
VarCases == UNION {{[kind |-> "VAR", q |-> q, sys |-> sys, name |-> nm] : sys \in BOOLEAN, nm \in VarNames(q)} : q \in {0, SQ, DQ, BQ}}

\* names for the target renderings: every sequence of up to 2 (N > 3: 3) name characters, and the long / keyword classes
TNames == (SeqsUpTo(TNameChars, 2) \ {<<>>})
          \cup {[i \in 1..70 |-> 97 + (i % 3)], <<115, 101, 108, 101, 99, 116>>, <<65, 98, 67>>, <<48, 48, 55>>}
TCases == {[kind |-> "TNAME", w |-> w] : w \in TNames}
TStyles == {"t_bq", "t_dq", "t_br"}

Init == c \in StrCases \cup IdCases \cup ValCases \cup EncCases \cup VarCases \cup TCases
Next == UNCHANGED c
Spec == Init /\ [][Next]_c

IdText(fs) == Join([i \in 1..Len(fs) |-> Written(fs[i][1], fs[i][2])])
IdParts(fs) == [i \in 1..Len(fs) |-> fs[i][1][2]]

\* the reference reads back what it wrote (oracle self-consistency)
SelfConsistent ==
  IF c.kind = "STR" THEN Denotes(c.style, TextOf(c.style, c.us), ValueOf(c.us))
  ELSE IF c.kind = "ID" THEN PathDenotes(IdText(c.fs), IdParts(c.fs))
  ELSE IF c.kind = "VAR" THEN VarDenotes(VarText(c.q, c.sys, c.name), c.sys, c.name)
  ELSE IF c.kind = "TNAME"
  THEN \A st \in TStyles : \A q \in {TRUE} \cup (IF TBareOk(c.w) THEN {FALSE} ELSE {}) :
         \* alone, as the second part of a path, and followed by more text: read back exactly, ending where it ends
         /\ LET t == TWritten(st, c.w, q) r == TPath(st, t, 1, "start", <<>>, <<>>) IN r.ok /\ r.parts = <<c.w>> /\ r.end = Len(t) + 1
         /\ LET t == <<97, DOT>> \o TWritten(st, c.w, q) \o <<32, 65, 83>> r == TPath(st, t, 1, "start", <<>>, <<>>) IN
              r.ok /\ r.parts = <<<<97>>, c.w>> /\ r.end = Len(t) - 2
         /\ MatchSegs(st, <<83, 32>> \o TWritten(st, c.w, q) \o <<44>> \o TWritten(st, c.w, q), 1,
                      <<[t |-> "lit", w |-> <<83>>], [t |-> "path", parts |-> <<c.w>>], [t |-> "lit", w |-> <<44>>], [t |-> "path", parts |-> <<c.w>>]>>) = "ok"
  ELSE TRUE
\* no literal is ended early by its own content: the scanner stops exactly at the last character
Inert == c.kind = "STR" => ScanStr(c.style, TextOf(c.style, c.us)).end = Len(TextOf(c.style, c.us))

Emit ==
  IF c.kind = "STR"
  THEN (c.style \in {"lib_sq", "lib_dq"}) =>
          PrintT(<<"STR", c.style, KindsOf(c.us), TextOf(c.style, c.us), ValueOf(c.us)>>)
  ELSE IF c.kind = "VAL" THEN PrintT(<<"VAL", c.v>>)
  ELSE IF c.kind = "PARTS" THEN PrintT(<<"PARTS", c.ps>>)
  ELSE IF c.kind = "VAR" THEN PrintT(<<"VAR", c.q, c.sys, VarText(c.q, c.sys, c.name), c.name>>)
  ELSE IF c.kind = "TNAME" THEN PrintT(<<"TNAME", c.w>>)
  ELSE PrintT(<<"ID", [i \in 1..Len(c.fs) |-> <<c.fs[i][1][1], c.fs[i][2]>>], IdText(c.fs), IdParts(c.fs)>>)
=============================================================================
