------------------------------- MODULE SQLSem -------------------------------
(***************************************************************************)
(* Reference semantics of the SQL fragment the planner and the renderer    *)
(* handle, over relations = sequences of rows with a header of             *)
(* (tableAlias, column) tags.  Written for TLC: every (query, database)    *)
(* pair evaluates to the SET of admissible relations -- the only source of *)
(* freedom is LIMIT/OFFSET cutting through rows the ORDER BY does not      *)
(* separate.                                                               *)
(*                                                                         *)
(* Values are integers; NULL == -99; ERR == -98 marks an unresolvable or   *)
(* ambiguous column (it propagates, and must be matched by ERR).           *)
(* Queries arrive in the "semantic form" produced by harness/sem.py:       *)
(*  expr : [e |-> "col", t, c] | [e |-> "const", v] | [e |-> "bin", op, a, b]*)
(*       | [e |-> "un", op, a] | [e |-> "between", neg, a, lo, hi]          *)
(*       | [e |-> "in", neg, a, items] | [e |-> "insub", neg, a, q]         *)
(*       | [e |-> "exists", neg, q] | [e |-> "scalar", q]                   *)
(*       | [e |-> "agg", f, a, star] | [e |-> "star", t] | [e |-> "param", n]*)
(*       | [e |-> "isnull", neg, a] | [e |-> "none"]                        *)
(*  from : [f |-> "table", db, name, as] | [f |-> "join", kind, l, r, on]   *)
(*       | [f |-> "sub", q, as] | [f |-> "df", n, as] | [f |-> "none"]      *)
(*  query: [q |-> "select", distinct, targets, from, where, group, having,  *)
(*          order, limit, offset, ctes] | [q |-> "setop", op, all, l, r]    *)
(***************************************************************************)
EXTENDS Naturals, Integers, Sequences, FiniteSets, TLC

NULL == -99
ERR == -98
None == [e |-> "none"]

----------------------------------------------------------------------------
(* 3-valued scalar operators *)
Truth(v) == IF v = NULL THEN NULL ELSE IF v # 0 THEN 1 ELSE 0
Not3(v) == IF v = ERR THEN ERR ELSE IF v = NULL THEN NULL ELSE 1 - Truth(v)
And3(a, b) == IF a = ERR \/ b = ERR THEN ERR
              ELSE IF Truth(a) = 0 \/ Truth(b) = 0 THEN 0 ELSE IF a = NULL \/ b = NULL THEN NULL ELSE 1
Or3(a, b) == IF a = ERR \/ b = ERR THEN ERR
             ELSE IF Truth(a) = 1 \/ Truth(b) = 1 THEN 1 ELSE IF a = NULL \/ b = NULL THEN NULL ELSE 0
B(x) == IF x THEN 1 ELSE 0
Abs(x) == IF x < 0 THEN -x ELSE x
Sgn(x) == IF x < 0 THEN -1 ELSE 1
TDiv(a, b) == Sgn(a) * Sgn(b) * (Abs(a) \div Abs(b))
BinVal(op, a, b) ==
  IF op = "and" THEN And3(a, b) ELSE IF op = "or" THEN Or3(a, b)
  ELSE IF a = ERR \/ b = ERR THEN ERR
  ELSE IF a = NULL \/ b = NULL THEN NULL
  ELSE CASE op = "*" -> a * b [] op = "+" -> a + b [] op = "-" -> a - b
         [] op = "/" -> (IF b = 0 THEN NULL ELSE TDiv(a, b))
         [] op = "%" -> (IF b = 0 THEN NULL ELSE a - b * TDiv(a, b))
         [] op = "=" -> B(a = b) [] op \in {"!=", "<>"} -> B(a # b)
         [] op = "<" -> B(a < b) [] op = "<=" -> B(a <= b) [] op = ">" -> B(a > b) [] op = ">=" -> B(a >= b)
         [] OTHER -> ERR

----------------------------------------------------------------------------
(* relations *)
\* keys: for an ordered relation, the ORDER BY key of each row (rows with equal keys may come in any order)
Rel(h, rs, o) == [hdr |-> h, rows |-> rs, ord |-> o, keys |-> <<>>]
RelK(h, rs, ks) == [hdr |-> h, rows |-> rs, ord |-> TRUE, keys |-> ks]
Matches(h, t, c) == {i \in 1..Len(h) : h[i].c = c /\ (t = "" \/ h[i].t = t)}
Lookup(h, row, t, c) == LET m == Matches(h, t, c) IN IF Cardinality(m) = 1 THEN row[CHOOSE i \in m : TRUE] ELSE ERR

\* canonical total order on values / rows (NULL first), used to break ties deterministically
VLess(a, b) == a < b                      \* NULL = -99 and ERR = -98 sort before every real value
RECURSIVE RowLess(_, _)
RowLess(r, s) == IF r = <<>> \/ s = <<>> THEN Len(r) < Len(s)
                 ELSE IF Head(r) # Head(s) THEN VLess(Head(r), Head(s)) ELSE RowLess(Tail(r), Tail(s))
\* stable sort by ranking (Less is a strict weak order; equal elements keep their relative order)
SortBy(s, Less(_, _)) ==
  LET n == Len(s)
      rank(i) == Cardinality({j \in 1..n : Less(s[j], s[i]) \/ (~Less(s[i], s[j]) /\ ~Less(s[j], s[i]) /\ j < i)}) + 1
  IN [p \in 1..n |-> s[CHOOSE i \in 1..n : rank(i) = p]]
Canon(rows) == SortBy(rows, RowLess)
SameBag(r1, r2) == Canon(r1) = Canon(r2)

RECURSIVE Dedup(_)
Dedup(rows) == IF rows = <<>> THEN <<>>
               ELSE LET rest == Dedup(Tail(rows)) IN
                    IF \E i \in 1..Len(rest) : rest[i] = Head(rows) THEN rest ELSE <<Head(rows)>> \o rest
RECURSIVE Remove1(_, _)
Remove1(rows, r) == IF rows = <<>> THEN <<>> ELSE IF Head(rows) = r THEN Tail(rows) ELSE <<Head(rows)>> \o Remove1(Tail(rows), r)
Member(rows, r) == \E i \in 1..Len(rows) : rows[i] = r

----------------------------------------------------------------------------
(* evaluation.  ctx = [db |-> [dbname |-> [table |-> [cols, rows]]], res |-> step results (PlanExec), defdb |-> name] *)
RECURSIVE EvalE(_, _, _, _, _), EvalQ(_, _), EvalFrom(_, _), EvalSelect(_, _, _), Agg(_, _, _, _)

\* correlated sub-queries: ctx.outer is the stack of enclosing (header, row) frames, innermost first.  A column that
\* matches nothing in the current scope is looked up outwards; an ambiguous match in any scope is an error.
RECURSIVE LookupOuter(_, _, _)
LookupOuter(frames, t, c) ==
  IF frames = <<>> THEN ERR
  ELSE LET f == Head(frames) m == Matches(f.h, t, c) IN
       IF Cardinality(m) = 1 THEN f.row[CHOOSE i \in m : TRUE]
       ELSE IF Cardinality(m) = 0 THEN LookupOuter(Tail(frames), t, c) ELSE ERR
OuterOf(ctx) == IF "outer" \in DOMAIN ctx THEN ctx.outer ELSE <<>>
LookupC(h, row, t, c, ctx) ==
  LET m == Matches(h, t, c) IN
  IF Cardinality(m) = 1 THEN row[CHOOSE i \in m : TRUE]
  ELSE IF Cardinality(m) = 0 THEN LookupOuter(OuterOf(ctx), t, c) ELSE ERR
Push(ctx, h, row) == [x \in DOMAIN ctx \cup {"outer"} |-> IF x = "outer" THEN <<[h |-> h, row |-> row]>> \o OuterOf(ctx) ELSE ctx[x]]

NoGrp == [on |-> FALSE, rows |-> <<>>]
Grp(rows) == [on |-> TRUE, rows |-> rows]
FirstCol(rel) == [i \in 1..Len(rel.rows) |-> rel.rows[i][1]]
In3(x, vals) ==
  IF x = ERR \/ \E i \in 1..Len(vals) : vals[i] = ERR THEN ERR
  ELSE IF x = NULL THEN (IF vals = <<>> THEN 0 ELSE NULL)
  ELSE IF \E i \in 1..Len(vals) : vals[i] = x THEN 1
  ELSE IF \E i \in 1..Len(vals) : vals[i] = NULL THEN NULL ELSE 0

\* a sub-query inside an expression must be deterministic here: take any admissible relation (QuerySpace never
\* puts an under-determined LIMIT inside an expression)
AnyRel(S) == CHOOSE r \in S : TRUE

\* grp = NoGrp outside aggregation, else [on |-> TRUE, rows |-> the rows of the current group]
EvalE(x, h, row, grp, ctx) ==
  CASE x.e = "col" -> LookupC(h, row, x.t, x.c, ctx)
    [] x.e = "const" -> x.v
    [] x.e = "bin" -> BinVal(x.op, EvalE(x.a, h, row, grp, ctx), EvalE(x.b, h, row, grp, ctx))
    [] x.e = "un" -> (LET a == EvalE(x.a, h, row, grp, ctx) IN
                      IF x.op = "not" THEN Not3(a) ELSE IF a \in {NULL, ERR} THEN a ELSE -a)
    [] x.e = "between" -> (LET a == EvalE(x.a, h, row, grp, ctx)
                               v == And3(BinVal(">=", a, EvalE(x.lo, h, row, grp, ctx)), BinVal("<=", a, EvalE(x.hi, h, row, grp, ctx)))
                           IN IF x.neg THEN Not3(v) ELSE v)
    [] x.e = "isnull" -> (LET a == EvalE(x.a, h, row, grp, ctx) IN
                          IF a = ERR THEN ERR ELSE IF x.neg THEN B(a # NULL) ELSE B(a = NULL))
    [] x.e = "in" -> (LET v == In3(EvalE(x.a, h, row, grp, ctx), [i \in 1..Len(x.items) |-> EvalE(x.items[i], h, row, grp, ctx)])
                      IN IF x.neg THEN Not3(v) ELSE v)
    [] x.e = "inparam" -> (LET v == In3(EvalE(x.a, h, row, grp, ctx), FirstCol(ctx.res[x.n + 1]))
                           IN IF x.neg THEN Not3(v) ELSE v)
    [] x.e = "insub" -> (LET v == In3(EvalE(x.a, h, row, grp, ctx), FirstCol(AnyRel(EvalQ(x.q, Push(ctx, h, row)))))
                         IN IF x.neg THEN Not3(v) ELSE v)
    [] x.e = "exists" -> (LET v == B(AnyRel(EvalQ(x.q, Push(ctx, h, row))).rows # <<>>) IN IF x.neg THEN 1 - v ELSE v)
    [] x.e = "scalar" -> (LET r == AnyRel(EvalQ(x.q, Push(ctx, h, row))) IN IF r.rows = <<>> THEN NULL ELSE r.rows[1][1])
    [] x.e = "case" -> (LET hit == {i \in 1..Len(x.rules) :
                                     Truth(IF x.arg.e = "none" THEN EvalE(x.rules[i][1], h, row, grp, ctx)
                                           ELSE BinVal("=", EvalE(x.arg, h, row, grp, ctx), EvalE(x.rules[i][1], h, row, grp, ctx))) = 1}
                        IN IF hit = {} THEN (IF x.default.e = "none" THEN NULL ELSE EvalE(x.default, h, row, grp, ctx))
                           ELSE EvalE(x.rules[CHOOSE i \in hit : \A j \in hit : i <= j][2], h, row, grp, ctx))
    [] x.e = "cast" -> EvalE(x.a, h, row, grp, ctx)          \* CAST(.. AS int) on integers
    [] x.e = "var" -> ctx.vars[x.c]                          \* '$var[col]' of a map-reduce step: the partition's value
    [] x.e = "agg" -> Agg(x, h, IF grp.on THEN grp.rows ELSE <<row>>, ctx)
    [] OTHER -> ERR

Agg(x, h, rows, ctx) ==
  LET vals == IF x.star THEN [i \in 1..Len(rows) |-> 1] ELSE [i \in 1..Len(rows) |-> EvalE(x.a, h, rows[i], NoGrp, ctx)]
      nn == SelectSeq(vals, LAMBDA v : v # NULL)
      dn == IF x.distinct THEN Dedup([i \in 1..Len(nn) |-> <<nn[i]>>]) ELSE [i \in 1..Len(nn) |-> <<nn[i]>>]
      xs == [i \in 1..Len(dn) |-> dn[i][1]]
      RECURSIVE Sum(_)
      Sum(s) == IF s = <<>> THEN 0 ELSE Head(s) + Sum(Tail(s))
  IN IF \E i \in 1..Len(vals) : vals[i] = ERR THEN ERR
     ELSE CASE x.f = "count" -> Len(xs)
            [] x.f = "sum" -> (IF xs = <<>> THEN NULL ELSE Sum(xs))
            [] x.f = "min" -> (IF xs = <<>> THEN NULL ELSE CHOOSE m \in {xs[i] : i \in 1..Len(xs)} : \A j \in 1..Len(xs) : m <= xs[j])
            [] x.f = "max" -> (IF xs = <<>> THEN NULL ELSE CHOOSE m \in {xs[i] : i \in 1..Len(xs)} : \A j \in 1..Len(xs) : m >= xs[j])
            [] OTHER -> ERR

RECURSIVE HasAgg(_)
HasAgg(x) ==
  CASE x.e = "agg" -> TRUE
    [] x.e \in {"bin"} -> HasAgg(x.a) \/ HasAgg(x.b)
    [] x.e \in {"un", "isnull", "cast"} -> HasAgg(x.a)
    [] x.e = "between" -> HasAgg(x.a) \/ HasAgg(x.lo) \/ HasAgg(x.hi)
    [] OTHER -> FALSE

IsErrRel(r) == \E i \in 1..Len(r.rows) : \E j \in 1..Len(r.rows[i]) : r.rows[i][j] = ERR

\* FROM items; a sub-select / CTE / dataframe re-tags its columns with the alias
Retag(rel, as) == IF as = "" THEN rel ELSE Rel([i \in 1..Len(rel.hdr) |-> [t |-> as, c |-> rel.hdr[i].c]], rel.rows, FALSE)
NullRow(n) == [i \in 1..n |-> NULL]
JoinRels(kind, l, r, on, ctx) ==
  LET h == l.hdr \o r.hdr
      ok(a, b) == on.e = "none" \/ Truth(EvalE(on, h, a \o b, NoGrp, ctx)) = 1
      bad == on.e # "none" /\ \E i \in 1..Len(l.rows), j \in 1..Len(r.rows) : EvalE(on, h, l.rows[i] \o r.rows[j], NoGrp, ctx) = ERR
      RECURSIVE Pairs(_, _)
      Pairs(i, j) == IF i > Len(l.rows) THEN <<>>
                     ELSE IF j > Len(r.rows) THEN Pairs(i + 1, 1)
                     ELSE (IF ok(l.rows[i], r.rows[j]) THEN <<l.rows[i] \o r.rows[j]>> ELSE <<>>) \o Pairs(i, j + 1)
      inner == Pairs(1, 1)
      lonly == SelectSeq(l.rows, LAMBDA a : ~\E j \in 1..Len(r.rows) : ok(a, r.rows[j]))
      ronly == SelectSeq(r.rows, LAMBDA b : ~\E i \in 1..Len(l.rows) : ok(l.rows[i], b))
      lpad == [i \in 1..Len(lonly) |-> lonly[i] \o NullRow(Len(r.hdr))]
      rpad == [i \in 1..Len(ronly) |-> NullRow(Len(l.hdr)) \o ronly[i]]
  IN IF IsErrRel(l) \/ IsErrRel(r) THEN Rel(<<>>, <<<<ERR>>>>, FALSE)
     ELSE IF bad THEN Rel(h, <<<<ERR>>>>, FALSE)
     ELSE Rel(h, CASE kind \in {"inner", "cross"} -> inner
                   [] kind = "left" -> inner \o lpad
                   [] kind = "right" -> inner \o rpad
                   [] kind = "full" -> inner \o lpad \o rpad
                   [] OTHER -> <<<<ERR>>>>, FALSE)

\* returns a SET of relations
EvalFrom(f, ctx) ==
  CASE f.f = "none" -> {Rel(<<>>, <<<<>>>>, FALSE)}
    [] f.f = "table" ->
         (LET d == IF f.db = "" THEN ctx.defdb ELSE f.db IN
          IF f.db = "" /\ f.name \in DOMAIN ctx.ctes THEN {Retag(r, IF f.as = "" THEN f.name ELSE f.as) : r \in ctx.ctes[f.name]}
          ELSE IF d \notin DOMAIN ctx.db \/ f.name \notin DOMAIN ctx.db[d] THEN {Rel(<<>>, <<<<ERR>>>>, FALSE)}
          ELSE LET tb == ctx.db[d][f.name] a == IF f.as = "" THEN f.name ELSE f.as IN
               {Rel([i \in 1..Len(tb.cols) |-> [t |-> a, c |-> tb.cols[i]]], tb.rows, FALSE)})
    [] f.f = "df" -> {Retag(ctx.res[f.n + 1], f.as)}
    [] f.f = "sub" -> {Retag(r, f.as) : r \in EvalQ(f.q, ctx)}
    [] f.f = "join" -> {JoinRels(f.kind, l, r, f.on, ctx) : l \in EvalFrom(f.l, ctx), r \in EvalFrom(f.r, ctx)}

\* expand targets (stars) into <<expr, output tag>> pairs
Targets(q, h) ==
  LET RECURSIVE Exp(_)
      Exp(ts) == IF ts = <<>> THEN <<>>
                 ELSE LET t == Head(ts) IN
                      (IF t.x.e = "star"
                       THEN LET idx == SelectSeq([i \in 1..Len(h) |-> i], LAMBDA i : t.x.t = "" \/ h[i].t = t.x.t)
                            IN [k \in 1..Len(idx) |-> [x |-> [e |-> "col", t |-> h[idx[k]].t, c |-> h[idx[k]].c],
                                                       tag |-> h[idx[k]]]]
                       ELSE <<[x |-> t.x, tag |-> [t |-> (IF t.x.e = "col" /\ t.as = "" THEN t.x.t ELSE ""),
                                                    c |-> (IF t.as # "" THEN t.as ELSE IF t.x.e = "col" THEN t.x.c ELSE "?")]]>>)
                      \o Exp(Tail(ts))
  IN Exp(q.targets)

\* all admissible results of LIMIT/OFFSET on rows sorted by `keys` (keys[i] is the ORDER BY key of rows[i]; ties
\* are contiguous).  Any member of a tie group that straddles the cut may be kept: a set T of positions is
\* admissible iff it takes from every tie group as many rows as the window does.
LimitChoices(rows, keys, lim, off) ==
  LET n == Len(rows)
      o == IF off < 0 THEN 0 ELSE off
      lo == IF o > n THEN n ELSE o
      hi == IF lim < 0 THEN n ELSE IF o + lim > n THEN n ELSE o + lim
      W == (lo + 1)..hi
      G(i) == {j \in 1..n : keys[j] = keys[i]}
      Adm == {T \in SUBSET (1..n) : \A i \in 1..n : Cardinality(T \cap G(i)) = Cardinality(W \cap G(i))}
      Nth(T, m) == CHOOSE p \in T : Cardinality({x \in T : x < p}) = m - 1
  IN IF lim < 0 /\ off < 0 THEN {rows}
     ELSE {[m \in 1..Cardinality(T) |-> rows[Nth(T, m)]] : T \in Adm}
\* the same choice applied to the keys (LimitChoices is deterministic in T, so we recompute positions)
LimitPos(n, keys, lim, off) ==
  LET o == IF off < 0 THEN 0 ELSE off
      lo == IF o > n THEN n ELSE o
      hi == IF lim < 0 THEN n ELSE IF o + lim > n THEN n ELSE o + lim
      W == (lo + 1)..hi
      G(i) == {j \in 1..n : keys[j] = keys[i]}
  IN IF lim < 0 /\ off < 0 THEN {1..n}
     ELSE {T \in SUBSET (1..n) : \A i \in 1..n : Cardinality(T \cap G(i)) = Cardinality(W \cap G(i))}
PickSeq(s, T) == [m \in 1..Cardinality(T) |-> s[CHOOSE p \in T : Cardinality({x \in T : x < p}) = m - 1]]

EvalSelect(q, src, ctx) ==
  IF IsErrRel(src) THEN {Rel(<<>>, <<<<ERR>>>>, FALSE)} ELSE
  LET h == src.hdr
      w == IF q.where.e = "none" THEN src.rows
           ELSE SelectSeq(src.rows, LAMBDA r : Truth(EvalE(q.where, h, r, NoGrp, ctx)) = 1)
      werr == q.where.e # "none" /\ \E i \in 1..Len(src.rows) : EvalE(q.where, h, src.rows[i], NoGrp, ctx) = ERR
      tg == Targets(q, h)
      grouped == q.group # <<>> \/ (\E i \in 1..Len(tg) : HasAgg(tg[i].x)) \/ (q.having.e # "none")
      \* groups: sequences of rows with equal grouping key (one group for the whole input when there is no GROUP BY)
      keyOf(r) == [i \in 1..Len(q.group) |-> EvalE(q.group[i], h, r, NoGrp, ctx)]
      gkeys == Dedup([i \in 1..Len(w) |-> keyOf(w[i])])
      groups == IF q.group = <<>> THEN <<w>> ELSE [g \in 1..Len(gkeys) |-> SelectSeq(w, LAMBDA r : keyOf(r) = gkeys[g])]
      gsel == IF q.having.e = "none" THEN groups
              ELSE SelectSeq(groups, LAMBDA g : Truth(EvalE(q.having, h, IF g = <<>> THEN NullRow(Len(h)) ELSE g[1], Grp(g), ctx)) = 1)
      \* one output unit per row (plain) or per group (grouped): <<representative row, group rows>>
      units == IF grouped THEN [i \in 1..Len(gsel) |-> <<IF gsel[i] = <<>> THEN NullRow(Len(h)) ELSE gsel[i][1], gsel[i]>>]
               ELSE [i \in 1..Len(w) |-> <<w[i], <<>>>>]
      gOf(u) == IF grouped THEN Grp(u[2]) ELSE NoGrp
      outRow(u) == [i \in 1..Len(tg) |-> EvalE(tg[i].x, h, u[1], gOf(u), ctx)]
      \* count(*) over an empty ungrouped input still yields one row; an empty group list yields none
      \* a dataframe that arrives ordered keeps its order through a plain select without ORDER BY (LIMIT / projection
      \* steps over an ordered result): then the position is the key
      keepOrder == q.order = <<>> /\ src.ord /\ ~grouped /\ ~q.distinct
      outs0 == [i \in 1..Len(units) |-> [row |-> outRow(units[i]),
                                          key |-> IF keepOrder THEN <<i>> ELSE [j \in 1..Len(q.order) |->
                                                     LET ov == EvalE(q.order[j].x, h, units[i][1], gOf(units[i]), ctx)
                                                         \* an ORDER BY item may also name an output alias
                                                         al == IF q.order[j].x.e = "col" /\ q.order[j].x.t = "" /\ ov = ERR
                                                               THEN LET m == {t \in 1..Len(tg) : tg[t].tag.c = q.order[j].x.c} IN
                                                                    IF Cardinality(m) = 1 THEN outRow(units[i])[CHOOSE t \in m : TRUE] ELSE ERR
                                                               ELSE ov
                                                     IN al]]]
      outs1 == IF q.distinct
               THEN LET d == Dedup([i \in 1..Len(outs0) |-> outs0[i].row]) IN
                    [i \in 1..Len(d) |-> outs0[CHOOSE k \in 1..Len(outs0) : outs0[k].row = d[i] /\ \A m \in 1..(k - 1) : outs0[m].row # d[i]]]
               ELSE outs0
      \* key comparison honouring direction and NULLS FIRST/LAST (default: NULLs first ascending, last descending)
      KLess(a, b, j) == LET d == q.order[j].dir nl == q.order[j].nulls
                            nullFirst == IF nl = "first" THEN TRUE ELSE IF nl = "last" THEN FALSE ELSE d # "desc"
                        IN IF a = b THEN FALSE
                           ELSE IF a = NULL THEN nullFirst ELSE IF b = NULL THEN ~nullFirst
                           ELSE IF d = "desc" THEN a > b ELSE a < b
      RECURSIVE KeyLess(_, _, _)
      KeyLess(ka, kb, j) == IF j > Len(q.order) THEN FALSE
                            ELSE IF ka[j] # kb[j] THEN KLess(ka[j], kb[j], j) ELSE KeyLess(ka, kb, j + 1)
      OutLess(x, y) == IF x.key # y.key THEN KeyLess(x.key, y.key, 1) ELSE RowLess(x.row, y.row)
      sorted == IF keepOrder THEN outs1 ELSE SortBy(outs1, OutLess)
      rowsS == [i \in 1..Len(sorted) |-> sorted[i].row]
      keysS == [i \in 1..Len(sorted) |-> sorted[i].key]
      hdrOut == [i \in 1..Len(tg) |-> tg[i].tag]
      anyErr == werr \/ IsErrRel(src) \/ (\E i \in 1..Len(sorted) : \E j \in 1..Len(sorted[i].row) : sorted[i].row[j] = ERR)
                     \/ (\E i \in 1..Len(sorted) : \E j \in 1..Len(sorted[i].key) : sorted[i].key[j] = ERR)
  IN IF anyErr THEN {Rel(hdrOut, <<<<ERR>>>>, FALSE)}
     ELSE {IF q.order # <<>> \/ keepOrder THEN RelK(hdrOut, PickSeq(rowsS, T), PickSeq(keysS, T))
                                                ELSE Rel(hdrOut, PickSeq(rowsS, T), FALSE)
           : T \in LimitPos(Len(rowsS), keysS, q.limit, q.offset)}

EvalQ(q, ctx) ==
  IF q.q = "setop"
  THEN {LET lr == Canon(l.rows) rr == Canon(r.rows)
            RECURSIVE Inter(_, _), Diff(_, _)
            Inter(a, b) == IF a = <<>> THEN <<>> ELSE IF Member(b, Head(a)) THEN <<Head(a)>> \o Inter(Tail(a), Remove1(b, Head(a))) ELSE Inter(Tail(a), b)
            Diff(a, b) == IF a = <<>> THEN <<>> ELSE IF Member(b, Head(a)) THEN Diff(Tail(a), Remove1(b, Head(a))) ELSE <<Head(a)>> \o Diff(Tail(a), b)
            rows == CASE q.op = "union" -> (IF q.all THEN lr \o rr ELSE Dedup(lr \o rr))
                      [] q.op = "intersect" -> (IF q.all THEN Inter(lr, rr) ELSE Dedup(Inter(Dedup(lr), Dedup(rr))))
                      [] q.op = "except" -> (IF q.all THEN Diff(lr, rr) ELSE SelectSeq(Dedup(lr), LAMBDA x : ~Member(rr, x)))
                      [] OTHER -> <<<<ERR>>>>
        IN IF IsErrRel(l) \/ IsErrRel(r) \/ Len(l.hdr) # Len(r.hdr) THEN Rel(l.hdr, <<<<ERR>>>>, FALSE) ELSE Rel(l.hdr, rows, FALSE)
        : l \in EvalQ(q.l, ctx), r \in EvalQ(q.r, ctx)}
  ELSE LET RECURSIVE WithCtes(_, _)
           WithCtes(i, c) == IF i > Len(q.ctes) THEN c
                             ELSE WithCtes(i + 1, [c EXCEPT !.ctes = [n \in DOMAIN c.ctes \cup {q.ctes[i].name} |->
                                                       IF n = q.ctes[i].name THEN EvalQ(q.ctes[i].q, c) ELSE c.ctes[n]]])
           c2 == WithCtes(1, ctx)
       IN UNION {EvalSelect(q, src, c2) : src \in EvalFrom(q.from, c2)}

----------------------------------------------------------------------------
(* DML as transitions on one table: stmt = [d |-> "insert", table, cols, rows << <<exprs>> >>]                *)
(*   | [d |-> "insert-select", table, cols, q] | [d |-> "update", table, set << <<col, expr>> >>, where]       *)
(*   | [d |-> "delete", table, where];   returns the new rows of the table (tb = [cols, rows])                  *)
ApplyDml(st, tb, ctx) ==
  LET h == [i \in 1..Len(tb.cols) |-> [t |-> st.table, c |-> tb.cols[i]]]
      pos(c) == CHOOSE i \in 1..Len(tb.cols) : tb.cols[i] = c
      mk(vals) == [i \in 1..Len(tb.cols) |-> IF \E k \in 1..Len(st.cols) : st.cols[k] = tb.cols[i]
                                              THEN vals[CHOOSE k \in 1..Len(st.cols) : st.cols[k] = tb.cols[i]] ELSE NULL]
  IN CASE st.d = "insert" -> tb.rows \o [r \in 1..Len(st.rows) |-> mk([k \in 1..Len(st.rows[r]) |-> EvalE(st.rows[r][k], <<>>, <<>>, NoGrp, ctx)])]
       [] st.d = "insert-select" -> tb.rows \o (LET rel == AnyRel(EvalQ(st.q, ctx)) IN [r \in 1..Len(rel.rows) |-> mk(rel.rows[r])])
       [] st.d = "update" -> [r \in 1..Len(tb.rows) |->
                                IF st.where.e = "none" \/ Truth(EvalE(st.where, h, tb.rows[r], NoGrp, ctx)) = 1
                                THEN [i \in 1..Len(tb.cols) |->
                                        IF \E k \in 1..Len(st.set) : st.set[k][1] = tb.cols[i]
                                        THEN EvalE(st.set[CHOOSE k \in 1..Len(st.set) : st.set[k][1] = tb.cols[i]][2], h, tb.rows[r], NoGrp, ctx)
                                        ELSE tb.rows[r][i]]
                                ELSE tb.rows[r]]
       [] st.d = "delete" -> SelectSeq(tb.rows, LAMBDA r : ~(st.where.e = "none" \/ Truth(EvalE(st.where, h, r, NoGrp, ctx)) = 1))
       [] OTHER -> tb.rows

\* comparing an observed / planned relation with an admissible one
\* `a` carries its rows in an order that `b` (an admissible ordered answer) allows: equal as bags inside every
\* maximal run of equal ORDER BY keys of b
SameOrdered(a, b) ==
  /\ Len(a.rows) = Len(b.rows)
  /\ \A i \in 1..Len(b.rows) :
        LET run == {j \in 1..Len(b.rows) : b.keys[j] = b.keys[i]} IN
        SameBag(SelectSeq([j \in 1..Len(b.rows) |-> IF j \in run THEN a.rows[j] ELSE <<>>], LAMBDA x : x # <<>>),
                SelectSeq([j \in 1..Len(b.rows) |-> IF j \in run THEN b.rows[j] ELSE <<>>], LAMBDA x : x # <<>>))
SameAnswer(a, b) == IF b.ord THEN a.ord /\ SameOrdered(a, b) ELSE SameBag(a.rows, b.rows)
=============================================================================
