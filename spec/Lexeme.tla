------------------------------- MODULE Lexeme -------------------------------
(***************************************************************************)
(* C04 / C07: what string literals and identifier paths DENOTE, stated     *)
(* independently of the library's replace()/strip() chains, as scanner     *)
(* automata over character codes.                                          *)
(*                                                                         *)
(* Styles                                                                  *)
(*   lib_sq  the library's '...' : backslash pairs and doubled quotes      *)
(*   lib_dq  the library's "..." : backslash pairs only                    *)
(*   mysql   MySQL target        : backslash pairs and doubled quotes      *)
(*   std     postgresql/sqlite/mssql/oracle targets: doubled quotes only,  *)
(*           a backslash is an ordinary character                          *)
(* A backslash pair \x denotes x (only pairs whose meaning is unambiguous  *)
(* are GENERATED for decoding: \' \" \\ ).                                 *)
(***************************************************************************)
EXTENDS Naturals, Integers, Sequences, FiniteSets, TLC

SQ == 39   DQ == 34   BS == 92   BQ == 96   DOT == 46

Quote(style) == IF style = "lib_dq" THEN DQ ELSE SQ
HasBS(style) == style \in {"lib_sq", "lib_dq", "mysql"}
HasDbl(style) == style \in {"lib_sq", "mysql", "std"}

\* the scanner: states Body(i) / Done / Stuck as a recursive function on the position
RECURSIVE Body(_, _, _, _)
Body(style, text, i, acc) ==
  IF i > Len(text) THEN [ok |-> FALSE, val |-> acc, end |-> i]                    \* Stuck: ran off the end
  ELSE LET c == text[i] IN
    IF c = BS /\ HasBS(style)
    THEN (IF i + 1 <= Len(text) THEN Body(style, text, i + 2, Append(acc, text[i + 1]))
          ELSE [ok |-> FALSE, val |-> acc, end |-> i])
    ELSE IF c = Quote(style)
    THEN (IF HasDbl(style) /\ i + 1 <= Len(text) /\ text[i + 1] = c
          THEN Body(style, text, i + 2, Append(acc, c))
          ELSE [ok |-> TRUE, val |-> acc, end |-> i])                             \* Done at the closing quote
    ELSE Body(style, text, i + 1, Append(acc, c))

ScanStr(style, text) ==
  IF Len(text) < 2 \/ text[1] # Quote(style) THEN [ok |-> FALSE, val |-> <<>>, end |-> 0]
  ELSE Body(style, text, 2, <<>>)

\* the text is exactly one literal denoting `value`: nothing before, nothing after, nothing lost
Denotes(style, text, value) ==
  LET r == ScanStr(style, text) IN r.ok /\ r.end = Len(text) /\ r.val = value

----------------------------------------------------------------------------
(* units a literal body is written with: <<kind, text codes, denoted codes>> *)
Units(style) ==
  LET q == Quote(style) o == IF q = SQ THEN DQ ELSE SQ IN
  {<<"plain", <<97>>, <<97>>>>, <<"space", <<32>>, <<32>>>>, <<"percent", <<37>>, <<37>>>>,
   <<"nonascii", <<233>>, <<233>>>>, <<"otherquote", <<o>>, <<o>>>>, <<"dot", <<DOT>>, <<DOT>>>>,
   \* line ends inside a literal are characters of the value like any other (LF, and the two-character CR LF)
   <<"newline", <<10>>, <<10>>>>, <<"crlf", <<13, 10>>, <<13, 10>>>>,
   \* a long run of plain characters: nothing in a scanner may depend on how long a literal is
   <<"long", [i \in 1..70 |-> 97], [i \in 1..70 |-> 97]>>}
  \cup (IF HasDbl(style) THEN {<<"doubled", <<q, q>>, <<q>>>>} ELSE {})
  \cup (IF HasBS(style) THEN {<<"bs-quote", <<BS, q>>, <<q>>>>, <<"bs-otherquote", <<BS, o>>, <<o>>>>,
                              <<"bs-bs", <<BS, BS>>, <<BS>>>>}
        ELSE {<<"backslash", <<BS>>, <<BS>>>>})

RECURSIVE Cat(_, _)
Cat(us, k) == IF us = <<>> THEN <<>> ELSE Head(us)[k] \o Cat(Tail(us), k)
TextOf(style, us) == <<Quote(style)>> \o Cat(us, 2) \o <<Quote(style)>>
ValueOf(us) == Cat(us, 3)
KindsOf(us) == [i \in 1..Len(us) |-> us[i][1]]

----------------------------------------------------------------------------
(* identifier paths: parts separated by dots outside back-quotes; a part is a plain word or `...` *)
IsWordStart(c) == (c >= 65 /\ c <= 90) \/ (c >= 97 /\ c <= 122) \/ c = 95
IsWordChar(c) == IsWordStart(c) \/ (c >= 48 /\ c <= 57) \/ c = 36

HasNonDigit(w) == \E j \in 1..Len(w) : ~(w[j] >= 48 /\ w[j] <= 57)
RECURSIVE Path(_, _, _, _, _)
\* mode: "start" of a part | "word" | "bq" inside back-quotes | "after" a closing back-quote
Path(text, i, mode, cur, parts) ==
  IF i > Len(text)
  THEN (IF mode = "after" \/ (mode = "word" /\ HasNonDigit(cur)) THEN [ok |-> TRUE, parts |-> Append(parts, cur)]
        ELSE [ok |-> FALSE, parts |-> parts])
  ELSE LET c == text[i] IN
    CASE mode = "start" ->
           (IF c = BQ THEN Path(text, i + 1, "bq", <<>>, parts)
            ELSE IF IsWordChar(c) THEN Path(text, i + 1, "word", <<c>>, parts)
            ELSE [ok |-> FALSE, parts |-> parts])
      [] mode = "word" ->
           (IF c = DOT THEN (IF HasNonDigit(cur) THEN Path(text, i + 1, "start", <<>>, Append(parts, cur))
                             ELSE [ok |-> FALSE, parts |-> parts])       \* a bare part of digits only is a number, not a name
            ELSE IF IsWordChar(c) THEN Path(text, i + 1, "word", Append(cur, c), parts)
            ELSE [ok |-> FALSE, parts |-> parts])
      [] mode = "bq" ->
           (IF c = BQ THEN (IF cur = <<>> THEN [ok |-> FALSE, parts |-> parts] ELSE Path(text, i + 1, "after", cur, parts))
            ELSE Path(text, i + 1, "bq", Append(cur, c), parts))
      [] mode = "after" ->
           (IF c = DOT THEN Path(text, i + 1, "start", <<>>, Append(parts, cur))
            ELSE [ok |-> FALSE, parts |-> parts])

ScanPath(text) == Path(text, 1, "start", <<>>, <<>>)
PathDenotes(text, parts) == LET r == ScanPath(text) IN r.ok /\ r.parts = parts

\* part classes: <<class, codes, may be written bare>>   (97 a, 98 b, 32 space, 49 '1', 36 '$', 233 e-acute)
PartClasses ==
  {<<"word", <<97, 98>>, TRUE>>, <<"mixedcase", <<65, 98, 67>>, TRUE>>, <<"underscore", <<95, 97>>, TRUE>>,
   <<"digits-first", <<49, 97>>, TRUE>>, <<"dollar", <<97, 36, 98>>, TRUE>>,
   <<"space", <<97, 32, 98>>, FALSE>>, <<"dot", <<97, 46, 98>>, FALSE>>, <<"nonascii", <<233, 97>>, FALSE>>,
   <<"quote", <<97, 39, 98>>, FALSE>>, <<"dash", <<97, 45, 98>>, FALSE>>,
   <<"digits-only", <<48, 48, 55>>, FALSE>>, <<"one-digit", <<53>>, FALSE>>,
   \* long names (past the 63 / 64 / 128 character limits of the usual engines): a name is not cut at any length
   <<"long70", [i \in 1..70 |-> 97 + (i % 3)], TRUE>>}

\* written form of a part: bare or back-quoted
Written(p, quoted) == IF quoted THEN <<BQ>> \o p[2] \o <<BQ>> ELSE p[2]
RECURSIVE Join(_)
Join(ws) == IF Len(ws) = 1 THEN ws[1] ELSE ws[1] \o <<DOT>> \o Join(Tail(ws))

----------------------------------------------------------------------------
(* user / system variables: @name, @@name, or the name between one pair of ' " ` delimiters; inside the  *)
(* delimiters every character other than the delimiter is a character of the name (the two other quote  *)
(* characters included); a bare name is made of letters _ . $                                            *)
IsVarChar(c) == (c >= 65 /\ c <= 90) \/ (c >= 97 /\ c <= 122) \/ c = 95 \/ c = DOT \/ c = 36
RECURSIVE VarBody(_, _, _, _)
VarBody(text, i, q, acc) ==
  IF i > Len(text) THEN [ok |-> q = 0 /\ acc # <<>>, name |-> acc, end |-> i - 1]
  ELSE LET c == text[i] IN
    IF q # 0 THEN (IF c = q THEN [ok |-> acc # <<>>, name |-> acc, end |-> i] ELSE VarBody(text, i + 1, q, Append(acc, c)))
    ELSE IF IsVarChar(c) THEN VarBody(text, i + 1, q, Append(acc, c))
    ELSE [ok |-> acc # <<>>, name |-> acc, end |-> i - 1]
ScanVar(text) ==
  IF Len(text) < 2 \/ text[1] # 64 THEN [ok |-> FALSE, sys |-> FALSE, name |-> <<>>, end |-> 0]
  ELSE LET sys == text[2] = 64
           i == IF sys THEN 3 ELSE 2 IN
       IF i > Len(text) THEN [ok |-> FALSE, sys |-> sys, name |-> <<>>, end |-> 0]
       ELSE LET q == IF text[i] \in {SQ, DQ, BQ} THEN text[i] ELSE 0
                r == VarBody(text, IF q = 0 THEN i ELSE i + 1, q, <<>>) IN
            [ok |-> r.ok /\ (q = 0 \/ IsVarChar(r.name[1])), sys |-> sys, name |-> r.name, end |-> r.end]
VarDenotes(text, sys, name) == LET r == ScanVar(text) IN r.ok /\ r.end = Len(text) /\ r.sys = sys /\ r.name = name

\* written forms: delimiter 0 (bare) or one of the quote characters
VarUnits(q) == IF q = 0 THEN {<<97>>, <<DOT>>, <<36>>, <<95>>, <<65>>}
               ELSE {<<97>>, <<DOT>>, <<32>>, <<37>>, <<233>>, <<45>>} \cup {<<o>> : o \in {SQ, DQ, BQ} \ {q}}
VarText(q, sys, name) == (IF sys THEN <<64, 64>> ELSE <<64>>) \o (IF q = 0 THEN name ELSE <<q>> \o name \o <<q>>)

----------------------------------------------------------------------------
(* identifier paths as the TARGET engines read them (the SQLAlchemy renderer's output):                        *)
(*   t_bq  MySQL       `...`  a back-quote inside is doubled                                                   *)
(*   t_dq  PostgreSQL / SQLite / Oracle  "..."  a double quote inside is doubled                               *)
(*   t_br  SQL Server  [...]  a closing bracket inside is doubled                                              *)
(* a bare part is a run of letters, digits, _ and $ that does not start with a digit.  Nothing else is special  *)
(* inside the delimiters: a percent sign, a colon, a backslash are characters of the name.                      *)
TOpen(style) == IF style = "t_bq" THEN BQ ELSE IF style = "t_dq" THEN DQ ELSE 91
TClose(style) == IF style = "t_bq" THEN BQ ELSE IF style = "t_dq" THEN DQ ELSE 93
IsDigit(c) == c >= 48 /\ c <= 57
RECURSIVE TPath(_, _, _, _, _, _)
\* mode: "start" | "word" | "q" inside delimiters | "after" a closing delimiter; returns the position after the path
TPath(style, text, i, mode, cur, parts) ==
  IF i > Len(text)
  THEN (IF mode \in {"after", "word"} THEN [ok |-> TRUE, parts |-> Append(parts, cur), end |-> i]
        ELSE [ok |-> FALSE, parts |-> parts, end |-> i])
  ELSE LET c == text[i] IN
    CASE mode = "start" ->
           (IF c = TOpen(style) THEN TPath(style, text, i + 1, "q", <<>>, parts)
            ELSE IF IsWordChar(c) /\ ~IsDigit(c) THEN TPath(style, text, i + 1, "word", <<c>>, parts)
            ELSE [ok |-> FALSE, parts |-> parts, end |-> i])
      [] mode = "word" ->
           (IF c = DOT THEN TPath(style, text, i + 1, "start", <<>>, Append(parts, cur))
            ELSE IF IsWordChar(c) THEN TPath(style, text, i + 1, "word", Append(cur, c), parts)
            ELSE [ok |-> TRUE, parts |-> Append(parts, cur), end |-> i])
      [] mode = "q" ->
           (IF c = TClose(style)
            THEN (IF i + 1 <= Len(text) /\ text[i + 1] = c THEN TPath(style, text, i + 2, "q", Append(cur, c), parts)
                  ELSE IF cur = <<>> THEN [ok |-> FALSE, parts |-> parts, end |-> i]
                  ELSE TPath(style, text, i + 1, "after", cur, parts))
            ELSE TPath(style, text, i + 1, "q", Append(cur, c), parts))
      [] mode = "after" ->
           (IF c = DOT THEN TPath(style, text, i + 1, "start", <<>>, Append(parts, cur))
            ELSE [ok |-> TRUE, parts |-> Append(parts, cur), end |-> i])

\* written form of a part for a target: bare, or delimited with the closing delimiter doubled
RECURSIVE DoubleClose(_, _)
DoubleClose(style, w) == IF w = <<>> THEN <<>>
                         ELSE (IF Head(w) = TClose(style) THEN <<Head(w), Head(w)>> ELSE <<Head(w)>>) \o DoubleClose(style, Tail(w))
TWritten(style, w, quoted) == IF quoted THEN <<TOpen(style)>> \o DoubleClose(style, w) \o <<TClose(style)>> ELSE w
TBareOk(w) == w # <<>> /\ ~IsDigit(w[1]) /\ \A j \in 1..Len(w) : IsWordChar(w[j])
\* characters a name may be made of in the enumerated cases: a b A _ $ 1 space . % " ` [ ] ' : \ e-acute
TNameChars == {97, 98, 65, 95, 36, 49, 32, 46, 37, 34, 96, 91, 93, 39, 58, 92, 233}

(* a rendered statement as a sequence of segments: a literal word (keyword / punctuation) or an identifier path;  *)
(* white space between segments is free.  The text must consist of exactly these segments, each path denoting     *)
(* exactly the given parts -- whatever characters the names are made of.                                          *)
IsBlank(c) == c \in {32, 9, 10, 13}
RECURSIVE SkipBlank(_, _)
SkipBlank(text, i) == IF i <= Len(text) /\ IsBlank(text[i]) THEN SkipBlank(text, i + 1) ELSE i
HasAt(text, i, w) == i + Len(w) - 1 <= Len(text) /\ \A j \in 1..Len(w) : text[i + j - 1] = w[j]
RECURSIVE MatchSegs(_, _, _, _)
MatchSegs(style, text, i0, segs) ==
  LET i == SkipBlank(text, i0) IN
  IF segs = <<>> THEN (IF i > Len(text) THEN "ok" ELSE "trailing-text")
  ELSE LET g == Head(segs) IN
       IF g.t = "lit" THEN (IF HasAt(text, i, g.w) THEN MatchSegs(style, text, i + Len(g.w), Tail(segs)) ELSE "structure")
       ELSE IF g.t = "str"
       THEN \* a string literal of the target (g.style: "mysql" or "std") denoting g.value, ending where the next segment starts
            (IF i > Len(text) \/ text[i] # SQ THEN "not-a-literal"
             ELSE LET r == Body(g.style, text, i + 1, <<>>) IN
                  IF ~r.ok THEN "unterminated-literal"
                  ELSE IF r.val # g.value THEN "wrong-value"
                  ELSE MatchSegs(style, text, r.end + 1, Tail(segs)))
       ELSE LET r == TPath(style, text, i, "start", <<>>, <<>>) IN
            IF ~r.ok THEN "not-a-path"
            ELSE IF r.parts # g.parts THEN "wrong-parts"
            ELSE MatchSegs(style, text, r.end, Tail(segs))
=============================================================================
