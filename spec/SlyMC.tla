------------------------------- MODULE SlyMC -------------------------------
(* Exhaustive design check of SlyDriver on a toy grammar whose tables were     *)
(* built by the repository's own sly: all inputs up to MaxLen, chosen callbacks *)
EXTENDS Naturals, Integers, Sequences, FiniteSets, TLC, Json, IOUtils

Data == JsonDeserialize(IOEnv.VERIF_TABLES)

VARIABLES input, cb, pos, look, lookStack, stateStack, symStack, state, errcount, errok, pc,
          phase, shifted, dropped, ncb

D == INSTANCE SlyDriver WITH
       Prods <- Data.prods, Action <- Data.action, Goto <- Data.goto, Defaulted <- Data.defaulted,
       RaisingProds <- {Data.raising[i] : i \in 1..Len(Data.raising)}

Terms == {Data.terminals[i] : i \in 1..Len(Data.terminals)}
Callbacks == {Data.callbacks[i] : i \in 1..Len(Data.callbacks)}
Inputs == UNION {[1..n -> Terms] : n \in 0..Data.maxlen}

MCInit == \E inp \in Inputs, c \in Callbacks : D!Init(inp, c)
Spec == MCInit /\ [][D!Next]_D!vars /\ WF_D!vars(D!Next)

TypeOK ==
  /\ pos \in 0..Len(input) /\ errcount \in 0..3 /\ errok \in BOOLEAN
  /\ pc \in {"top", "incb", "aftercb", "recover"}
  /\ Len(stateStack) = Len(symStack) /\ Len(stateStack) >= 1 /\ stateStack[1] = 0
  /\ state = stateStack[Len(stateStack)]

OutcomeAllowed == D!OutcomeAllowed
NoSilentDrop == D!NoSilentDrop
ShiftedIsPrefix == D!ShiftedIsPrefix
AcceptSound == D!AcceptSound(Data.start)
SentenceAccepted == D!SentenceAccepted(Data.start)
NoProgressAfterError == D!NoProgressAfterError
Terminates == D!Terminates

\* report every terminal state: <<"END", input, callback, phase>>  (used to compare with real sly)
Report == (phase # "run") => PrintT(<<"END", cb, phase, input>>)
=============================================================================
