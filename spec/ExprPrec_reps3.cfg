SPECIFICATION Spec
CONSTANTS N = 3
 Mode = "reps"
 Parens = "min"
INVARIANT Emit
INVARIANT PrintSane
