SPECIFICATION Spec
CONSTANTS Policy = "deep"
 Listed = {"parts", "alias"}
CHECK_DEADLOCK FALSE
INVARIANT CopyEqual
INVARIANT Disjoint
INVARIANT OriginalUntouched
