SPECIFICATION Spec
CHECK_DEADLOCK FALSE
INVARIANT TypeOK
INVARIANT OutcomeAllowed
INVARIANT NoSilentDrop
INVARIANT ShiftedIsPrefix
INVARIANT AcceptSound
PROPERTY NoProgressAfterError
PROPERTY Terminates
