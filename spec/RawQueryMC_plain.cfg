SPECIFICATION Spec
CONSTANTS N = 3
 Rewrite = FALSE
INVARIANT StoredVerbatim
