SPECIFICATION Spec
CONSTANT N = 4
INVARIANT Sane
INVARIANT Emit
