------------------------------ MODULE ParseSql ------------------------------
(***************************************************************************)
(* One public parse_sql call (mindsdb_sql/__init__.py) as a state machine  *)
(* above the LR driver:                                                    *)
(*   strip -> first driver run -> [ErrorHandling.process: error_location,  *)
(*   make_suggestion with up to two nested driver runs per candidate on    *)
(*   the SAME parser object] -> return tree | raise.                       *)
(* The driver runs themselves are SlyDriver behaviours (validated by       *)
(* SlyTrace); here each run is one step carrying its outcome.              *)
(*                                                                         *)
(* Design check (ParseSqlMC.cfg): every behaviour terminates in an allowed *)
(* outcome provided driver runs and the reporter raise nothing internal;   *)
(* TLC exhibits the leak otherwise.  Trace validation (ParseSqlTrace):     *)
(* every recorded call must be a behaviour, and invariants are evaluated   *)
(* at each recorded step.                                                  *)
(***************************************************************************)
EXTENDS Naturals, Sequences, FiniteSets, TLC

CONSTANTS
  MaxCand,          \* bound on display candidates explored in the design model
  InternalPossible  \* TRUE: grammar actions / reporter may raise internal errors (expected to break the property)

VARIABLES
  stage,     \* "start" | "first" | "report" | "loc" | "sugg" | "tryins" | "tryrep" | "afterrep" | "reported" | "done"
  cbkind,    \* "raise" | "record"   (dialect's error-callback shape)
  first,     \* outcome of the first driver run
  ncand,     \* number of display candidates make_suggestion iterates over
  k,         \* candidate index being tried (1..ncand)
  nested,    \* number of nested driver runs so far
  final      \* "" | "tree" | "ParsingException" | "LexError" | "internal" | "returned_None" | "non_tree"

vars == <<stage, cbkind, first, ncand, k, nested, final>>

RunOutcomes == {"accepted", "none", "raised_parsing", "raised_lex"} \cup
               (IF InternalPossible THEN {"raised_internal"} ELSE {})

Init(c) == /\ stage = "start" /\ cbkind = c /\ first = "" /\ ncand = 0 /\ k = 0 /\ nested = 0 /\ final = ""

\* lexer.tokenize + parser.parse: the first driver run ends with outcome o
FirstRun(o) ==
  /\ stage = "start" /\ o \in RunOutcomes
  /\ (o = "none") => cbkind = "record"          \* only a recording callback lets parse() return None
  /\ first' = o /\ stage' = "first"
  /\ UNCHANGED <<cbkind, ncand, k, nested, final>>

ReturnTree == /\ stage = "first" /\ first = "accepted" /\ final' = "tree" /\ stage' = "done"
              /\ UNCHANGED <<cbkind, first, ncand, k, nested>>
Propagate  == /\ stage = "first" /\ first \in {"raised_parsing", "raised_lex", "raised_internal"}
              /\ final' = (CASE first = "raised_parsing" -> "ParsingException"
                             [] first = "raised_lex" -> "LexError"
                             [] OTHER -> "internal")
              /\ stage' = "done" /\ UNCHANGED <<cbkind, first, ncand, k, nested>>

\* `if ast is None:` eh.process(parser.error_info)
ProcessBegin == /\ stage = "first" /\ first = "none" /\ stage' = "report"
                /\ UNCHANGED <<cbkind, first, ncand, k, nested, final>>
\* no tokens at all -> 'Empty input'
EmptyInput == /\ stage = "report" /\ stage' = "reported" /\ UNCHANGED <<cbkind, first, ncand, k, nested, final>>
\* error_location() built the source lines and the caret line
LocDone == /\ stage = "report" /\ stage' = "loc" /\ UNCHANGED <<cbkind, first, ncand, k, nested, final>>
\* make_suggestion: n display candidates; candidates are only *tried* when 1 < n < 20 and the bad token is not EOF
SuggBegin(n, tries) ==
  /\ stage = "loc" /\ ncand' = n /\ k' = 0
  /\ tries => (1 < n /\ n < 20)
  /\ stage' = IF tries THEN "sugg" ELSE "reported"
  /\ UNCHANGED <<cbkind, first, nested, final>>
\* next candidate: try to insert it before the bad token (a nested driver run on the same parser)
TryInsert(o) ==
  /\ stage = "sugg" /\ k < ncand /\ o \in RunOutcomes
  /\ k' = k + 1 /\ nested' = nested + 1
  /\ stage' = (CASE o = "accepted" -> "sugg"                  \* query_is_valid: suggestion kept, continue
                 [] o = "none" -> "tryrep"
                 [] o = "raised_internal" -> "leakI"          \* nested run raised: exception escapes the reporter
                 [] OTHER -> "leakP")                         \* ... a ParsingException / LexError from a nested run
  /\ UNCHANGED <<cbkind, first, ncand, final>>
\* otherwise try to substitute it for the bad token
TryReplace(o) ==
  /\ stage = "tryrep" /\ o \in RunOutcomes
  /\ nested' = nested + 1
  /\ stage' = (IF o \in {"accepted", "none"} THEN "sugg" ELSE IF o = "raised_internal" THEN "leakI" ELSE "leakP")
  /\ UNCHANGED <<cbkind, first, ncand, k, final>>
SuggEnd == /\ stage = "sugg" /\ k = ncand /\ stage' = "reported"
           /\ UNCHANGED <<cbkind, first, ncand, k, nested, final>>
\* raise ParsingException(message)
RaiseReported == /\ stage = "reported" /\ final' = "ParsingException" /\ stage' = "done"
                 /\ UNCHANGED <<cbkind, first, ncand, k, nested>>
\* an exception raised while building the message escapes parse_sql
Leak == /\ stage \in {"leakI", "leakP"} /\ stage' = "done"
        /\ final' = (IF stage = "leakI" THEN "internal" ELSE "ParsingException")
        /\ UNCHANGED <<cbkind, first, ncand, k, nested>>
\* the reporter itself (error_location / candidate table) raises
ReporterRaises == /\ InternalPossible /\ stage \in {"report", "loc", "sugg"} /\ stage' = "leakI"
                  /\ UNCHANGED <<cbkind, first, ncand, k, nested, final>>

Next ==
  \/ \E o \in RunOutcomes : FirstRun(o) \/ TryInsert(o) \/ TryReplace(o)
  \/ ReturnTree \/ Propagate \/ ProcessBegin \/ EmptyInput \/ LocDone
  \/ \E n \in 0..MaxCand, t \in BOOLEAN : SuggBegin(n, t)
  \/ SuggEnd \/ RaiseReported \/ Leak \/ ReporterRaises

Spec == (\E c \in {"raise", "record"} : Init(c)) /\ [][Next]_vars /\ WF_vars(Next)

----------------------------------------------------------------------------
OutcomeAllowed == stage = "done" => final \in {"tree", "ParsingException", "LexError"}
TreeOnlyIfAccepted == final = "tree" => first = "accepted"
NestedBudget == nested <= 2 * 19
\* used only when the harness could not observe the reporter's internals
OpaqueReport == /\ stage = "first" /\ first = "none" /\ stage' = "reported"
                /\ UNCHANGED <<cbkind, first, ncand, k, nested, final>>

ReportAlwaysRaisesParsing == (stage = "done" /\ first = "none") => final = "ParsingException"
Terminates == <>(stage = "done")
=============================================================================
