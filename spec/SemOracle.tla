------------------------------ MODULE SemOracle ------------------------------
(* The reference semantics is checked against a reference engine before it judges:  *)
(* for each (query, database) pair executed by sqlite3 the observed rows must be an  *)
(* admissible answer of SQLSem (bag equality; sequence equality when the query       *)
(* orders its result).  A disagreement is a bug of the specification.                *)
EXTENDS SQLSem, Json, IOUtils
Obs == JsonDeserialize(IOEnv.VERIF_OBS)
VARIABLES tid, done

DbOf(ts, a) ==
  [d \in {ts[i].db : i \in 1..Len(ts)} |-> [n \in {ts[i].name : i \in {j \in 1..Len(ts) : ts[j].db = d}} |->
      LET i == CHOOSE j \in 1..Len(ts) : ts[j].db = d /\ ts[j].name = n IN [cols |-> ts[i].cols, rows |-> a[i]]]]

Agree(x) ==
  LET S == EvalQ(x.orig, [db |-> DbOf(x.tables, x.asg), res |-> <<>>, defdb |-> x.defdb, ctes |-> [n \in {} |-> {}]])
  IN \E r \in S : IF r.ord THEN SameOrdered([rows |-> x.rows], r) ELSE SameBag(r.rows, x.rows)

\* DML observations: x.dml = the statement, x.table = index of the target table, x.rows = its rows afterwards
AgreeDml(x) ==
  LET c == [db |-> DbOf(x.tables, x.asg), res |-> <<>>, defdb |-> x.defdb, ctes |-> [n \in {} |-> {}]]
      tb == [cols |-> x.tables[x.table].cols, rows |-> x.asg[x.table]]
  IN SameBag(ApplyDml(x.dml, tb, c), x.rows)
IsDml(x) == "dml" \in DOMAIN x

Init == tid \in 1..Len(Obs) /\ done = FALSE
Judge == /\ ~done /\ done' = TRUE /\ UNCHANGED tid
         /\ IF IsDml(Obs[tid])
            THEN (~AgreeDml(Obs[tid]) => PrintT(<<"DIFF", tid, "dml">>))
            ELSE (~Agree(Obs[tid]) => PrintT(<<"DIFF", tid, EvalQ(Obs[tid].orig, [db |-> DbOf(Obs[tid].tables, Obs[tid].asg), res |-> <<>>,
                                              defdb |-> Obs[tid].defdb, ctes |-> [n \in {} |-> {}]])>>))
Spec == Init /\ [][Judge]_<<tid, done>>
=============================================================================
