SPECIFICATION Spec
CONSTANTS Threads = {1, 2}
 Policy = "Fresh"
 Steps = 5
CHECK_DEADLOCK FALSE
INVARIANT Isolation
INVARIANT OwnerExclusive
INVARIANT Emit
PROPERTY Terminates
