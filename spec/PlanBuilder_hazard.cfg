SPECIFICATION Spec
CONSTANTS MaxItems = 3
 CloseFirst = FALSE
CHECK_DEADLOCK FALSE
INVARIANT ForwardOnly
