SPECIFICATION Spec
CONSTANTS Threads = {1, 2}
 Policy = "Cached"
 Steps = 3
CHECK_DEADLOCK FALSE
INVARIANT Isolation
